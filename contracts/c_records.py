"""Schemas of the record/bundle/document objects and the contracts of value-level and record-level
equality and hashing (property C04; the record view is shared by C05, C08, C09, C12, C13, C18).

Record state view:  _attributes : QMap[VSet]  = python dict keyed by QualifiedName (hash/== by URI,
first key object kept) of python sets of values (membership by canonical key ck, first representative
kept, size).  DESIGN 2.3 "Keys".
"""

schema(
    "ProvRecord",
    fields={
        "_bundle": "Opt[ProvBundle]",
        "_identifier": "Opt[QN]",
        "_attributes": "QMap[VSet]",
    },
)
schema(
    "ProvBundle",
    fields={
        "_identifier": "Opt[QN]",
        "_records": "Seq[ProvRecord]",
        "_id_map": "QMap[Seq[ProvRecord]]",
        "_document": "Opt[ProvDocument]",
        "_namespaces": "NamespaceManager",
    },
)
schema("ProvDocument", fields={"_bundles": "QMap[ProvBundle]"})

inline(
    "prov.model.ProvRecord.get_type",
    "prov.model.ProvRecord.identifier",
    "prov.model.ProvRecord.bundle",
    "prov.model.Literal.value",
    "prov.model.Literal.datatype",
    "prov.model.Literal.langtag",
    "prov.model.Literal.has_no_langtag",
    "prov.model.first",
)


# ---------------------------------------------------------------------------------------------- Literal
@contract("prov.model.Literal.__init__", props=["C04", "C05", "C01", "C02"])
def Literal_init(value: "Val", datatype: "Opt[QN]" = None, langtag: "Opt[str]" = None) -> "Lit":
    ensures("value-is-text", result.value == py_str(value))
    ensures("langtag-kept", same(result.langtag, langtag))
    # a language tag forces prov:InternationalizedString
    ensures("datatype", (result.datatype is not None and result.datatype.uri == PROV["InternationalizedString"].uri)
            if (langtag is not None and langtag != "") else same(result.datatype, datatype))


@contract("prov.model.Literal.__eq__", props=["C04"])
def Literal_eq(self: "Lit", other: "Val") -> "bool":
    pure()
    ensures("agrees-with-value-equality", result == py_eq(self, other))
    ensures("content", result == (is_lit(other) and as_lit(other).value == self.value
                                  and same(as_lit(other).langtag, self.langtag)
                                  and ((self.datatype is None and as_lit(other).datatype is None)
                                       or (self.datatype is not None and as_lit(other).datatype is not None
                                           and self.datatype.uri == as_lit(other).datatype.uri))))


@contract("prov.model.Literal.__ne__", props=["C04"])
def Literal_ne(self: "Lit", other: "Val") -> "bool":
    pure()
    ensures("negation-of-eq", result == (not py_eq(self, other)))


@contract("prov.model.Literal.__hash__", props=["C04"])
def Literal_hash(self: "Lit") -> "int":
    pure()
    ensures("hash-def", result == hash_of(self))


# ---------------------------------------------------------------------------------------------- records
@spec
def AttrsKeysWF(r: "ProvRecord") -> "bool":
    return forall(
        lambda u: vs_wf(qm_get(r._attributes, u)) and implies(qm_has(r._attributes, u), qm_key(r._attributes, u).uri == u),
        "str")


@spec
def AttrsRepsWF(r: "ProvRecord") -> "bool":
    return forall(
        lambda u, c: implies(vs_has(qm_get(r._attributes, u), c),
                             same(ck(vs_rep(qm_get(r._attributes, u), c)), c) and vs_n(qm_get(r._attributes, u)) > 0),
        "str", "Val")


@spec
def AttrsSizeWF(r: "ProvRecord") -> "bool":
    # the size field is the cardinality: a set of size <= 1 has at most one member
    return forall(
        lambda u, c1, c2: implies(vs_n(qm_get(r._attributes, u)) <= 1 and vs_has(qm_get(r._attributes, u), c1)
                                  and vs_has(qm_get(r._attributes, u), c2), same(c1, c2)),
        "str", "Val", "Val")


@spec
def AttrsWF(r: "ProvRecord") -> "bool":
    """representation invariant of the attribute table: key objects carry their key's URI, value sets are
    well-formed, representatives carry their canonical key"""
    return AttrsKeysWF(r) and AttrsRepsWF(r) and AttrsSizeWF(r)


@spec
def SameAttrs(x: "ProvRecord", y: "ProvRecord") -> "bool":
    # the same set of (attribute name URI, value) pairs
    return forall(lambda u, c: set_has(attr_set(x._attributes), pair(u, c)) == set_has(attr_set(y._attributes), pair(u, c)), "str", "Val")


@spec
def SameId(x: "ProvRecord", y: "ProvRecord") -> "bool":
    # both anonymous, or both identified by the same URI
    return (x._identifier is None and y._identifier is None) or (
        x._identifier is not None and y._identifier is not None and x._identifier.uri == y._identifier.uri)


@spec
def EqRecord(x: "ProvRecord", y: "ProvRecord") -> "bool":
    """C04: same record type, same identifier URI, same attribute name URIs and values - i.e. the same
    record key (type, identifier URI, set of (name URI, value) pairs); lemma record-key-is-content below
    shows that this is the pointwise statement of the property"""
    return same(rkey(x), rkey(y))


@spec
def EqRecordPointwise(x: "ProvRecord", y: "ProvRecord") -> "bool":
    return same(x._prov_type, y._prov_type) and SameId(x, y) and SameAttrs(x, y)


@spec
def HashRecord(x: "ProvRecord") -> "int":
    return uf("hash_tuple3", "int", hash_of(x._prov_type), hash_of(x._identifier), hash_of(attr_set(x._attributes)))


@contract("prov.model.ProvRecord.attributes", props=["C04", "C05", "C08", "C09", "C13"])
def ProvRecord_attributes(self: "ProvRecord") -> "Seq[Tup[Val,Val]]":
    pure()
    reveal("canon_in", "NormalPair")
    comprehension_elt("Tup[Val,Val]")
    # C08/C12: what a record in normal form lists can be given to a constructor / add_attributes again
    ensures("normal", implies(NF(self), AllNormal(result)))
    ensures("names-are-qualified-names", forall(lambda i: implies(0 <= i and i < seq_len(result), is_qn(seq_nth(result, i)[0])), "int"))
    requires("attrs-wf", AttrsWF(self))
    ensures("canonical-content",
            forall(lambda u, c: canon_in(result, u, c) == vs_has(qm_get(self._attributes, u), c), "str", "Val"))
    ensures("as-a-set", same(canon_set(result), attr_set(self._attributes)))
    ensures("members-are-stored",
            forall(lambda a, v: implies(seq_has(result, pair(box(a), v)),
                                        vs_has(qm_get(self._attributes, a.uri), ck(v))
                                        and same(vs_rep(qm_get(self._attributes, a.uri), ck(v)), v)
                                        and same(qm_key(self._attributes, a.uri), a)), "QN", "Val"))


@contract("prov.model.ProvRecord.__eq__", props=["C04", "C13"])
def ProvRecord_eq(self: "ProvRecord", other: "Val") -> "bool":
    pure()
    requires("attrs-wf", AttrsWF(self))
    requires("other-attrs-wf", implies(isinst(other, "ProvRecord"), AttrsWF(as_ref(other, "ProvRecord"))))
    ensures("content-equality", result == (isinst(other, "ProvRecord") and EqRecord(self, as_ref(other, "ProvRecord"))))


@contract("prov.model.ProvRecord.__hash__", props=["C04", "C13"])
def ProvRecord_hash(self: "ProvRecord") -> "int":
    pure()
    requires("attrs-wf", AttrsWF(self))
    ensures("hash-def", result == HashRecord(self))


# ---------------------------------------------------------------------------------------------- lemmas
@lemma("value-equality-hash-consistent", props=["C04"])
def value_eq_hash(a: "Val", b: "Val"):
    """== on attribute values implies equal hashes (records are compared through sets of (name, value))"""
    assume(py_eq(a, b))
    assume(is_lit(a) or is_ident(a) or is_qn(a) or is_str(a) or is_int(a) or is_bool(a))
    prove("literals", implies(is_lit(a), hash_of(as_lit(a)) == hash_of(as_lit(b))))
    prove("qualified-names", implies(is_qn(a) and is_qn(b), hash_of(as_qn(a)) == hash_of(as_qn(b))))
    prove("identifiers", implies(is_ident(a) and is_ident(b), hash_of(as_ident(a)) == hash_of(as_ident(b))))
    prove("identifier-vs-qualified-name", implies(is_ident(a) and is_qn(b), hash_of(as_ident(a)) == hash_of(as_qn(b))))
    prove("bool-vs-int", implies(is_bool(a) and is_int(b), hash_of(as_bool(a)) == hash_of(as_int(b))))


@lemma("namespace-equality", props=["C04"])
def namespace_eq(a: "Ns", b: "Ns", c: "Ns"):
    prove("reflexive", a == a)
    prove("symmetric", (a == b) == (b == a))
    prove("transitive", implies(a == b and b == c, a == c))
    prove("hash-consistent", implies(a == b, hash_of(a) == hash_of(b)))


@lemma("value-equality-equivalence", props=["C04"])
def value_eq_equiv(a: "Val", b: "Val", c: "Val"):
    prove("reflexive", py_eq(a, a))
    prove("symmetric", py_eq(a, b) == py_eq(b, a))
    prove("transitive", implies(py_eq(a, b) and py_eq(b, c), py_eq(a, c)))


@lemma("record-key-is-content", props=["C04"])
def record_key_is_content(x: "ProvRecord", y: "ProvRecord"):
    prove("key-equality-implies-content-equality", implies(EqRecord(x, y), EqRecordPointwise(x, y)))
    prove("content-equality-implies-key-equality", implies(EqRecordPointwise(x, y), EqRecord(x, y)))


@lemma("attribute-pair-set-meaning", props=["C04"])
def attr_pair_set_meaning(x: "ProvRecord", u: "str", c: "Val"):
    # what membership in the pair set means: value key c is stored under the attribute with URI u
    prove("membership", set_has(attr_set(x._attributes), pair(u, c)) == vs_has(qm_get(x._attributes, u), c))


@lemma("record-equality-equivalence", props=["C04"])
def record_eq_equiv(x: "ProvRecord", y: "ProvRecord", z: "ProvRecord"):
    prove("reflexive", EqRecord(x, x))
    prove("symmetric", EqRecord(x, y) == EqRecord(y, x))
    prove("transitive", implies(EqRecord(x, y) and EqRecord(y, z), EqRecord(x, z)))
    prove("hash-consistent", implies(EqRecord(x, y), HashRecord(x) == HashRecord(y)))


# ---------------------------------------------------------------------------------------------- bundles
@contract("prov.model.ProvBundle.get_records", props=["C04", "C18", "C13"])
def ProvBundle_get_records(self: "ProvBundle", class_or_type_or_tuple: "none" = None) -> "Seq[ProvRecord]":
    pure()
    ensures("all-records", same(result, self._records))


@spec
def RecordsWF(b: "ProvBundle") -> "bool":
    return forall(lambda r: implies(seq_has(b._records, r), AttrsWF(r)), "ProvRecord")


@spec
def SameRecordSet(x: "ProvBundle", y: "ProvBundle") -> "bool":
    """the two containers hold the same set of records (order and repetition are immaterial)"""
    return same(rec_keys(x._records), rec_keys(y._records))


@contract("prov.model.ProvBundle.__eq__", props=["C04", "C13"])
def ProvBundle_eq(self: "ProvBundle", other: "Val") -> "bool":
    pure()
    requires("records-wf", RecordsWF(self))
    requires("other-records-wf", implies(isinst(other, "ProvBundle"), RecordsWF(as_ref(other, "ProvBundle"))))
    invariant("L1", "matched-so-far-are-in-other",
              forall(lambda j: implies(0 <= j and j < _i, os_has(entry("other_records"), rkey(_elem(j)))), "int"))
    invariant("L1", "other-shrinks-by-the-matched",
              forall(lambda k: os_has(other_records, k) == (os_has(entry("other_records"), k)
                                                            and not exists(lambda j: 0 <= j and j < _i and same(rkey(_elem(j)), k), "int")), "RKey"))
    invariant("L1", "other-representatives-kept", same(os_rep(other_records), os_rep(entry("other_records"))))
    # (three separate clauses: the conjunction under one quantifier took 10-40 s, each part takes about a second)
    invariant("L1", "other-members-are-others-records",
              forall(lambda k: implies(os_has(other_records, k), seq_has(other._records, os_rep(other_records, k))), "RKey"))
    invariant("L1", "other-members-are-keyed-by-their-record-key",
              forall(lambda k: implies(os_has(other_records, k), same(rkey(os_rep(other_records, k)), k)), "RKey"))
    invariant("L1", "other-members-are-well-formed",
              forall(lambda k: implies(os_has(other_records, k), AttrsWF(os_rep(other_records, k))), "RKey"))
    invariant("L2", "not-found-yet", not found)
    invariant("L2", "other-unchanged", same(other_records, entry("other_records")))
    invariant("L2", "none-equal-so-far",
              forall(lambda j: implies(0 <= j and j < _i, not EqRecord(record_a, _elem(j))), "int"))
    after_loop("L2", "record-a-has-no-partner-left", not os_has(other_records, rkey(record_a)))
    ensures("same-record-set", result == (isinst(other, "ProvBundle") and SameRecordSet(self, as_ref(other, "ProvBundle"))))


@contract("prov.model.ProvBundle.__ne__", props=["C04", "C13"])
def ProvBundle_ne(self: "ProvBundle", other: "Val") -> "bool":
    pure()
    requires("records-wf", RecordsWF(self))
    requires("other-records-wf", implies(isinst(other, "ProvBundle"), RecordsWF(as_ref(other, "ProvBundle"))))
    ensures("negation-of-eq", result == (not (isinst(other, "ProvBundle") and SameRecordSet(self, as_ref(other, "ProvBundle")))))


# ---------------------------------------------------------------------------------------------- documents
@spec
def BundlesWF(d: "ProvDocument") -> "bool":
    return forall(lambda u: implies(qm_has(d._bundles, u),
                                    RecordsWF(qm_get(d._bundles, u)) and qm_key(d._bundles, u).uri == u), "str")


@spec
def SameBundles(x: "ProvDocument", y: "ProvDocument") -> "bool":
    """the same bundle identifiers (URIs) on both sides, each naming bundles with the same record set"""
    return forall(
        lambda u: qm_has(x._bundles, u) == qm_has(y._bundles, u)
        and implies(qm_has(x._bundles, u), SameRecordSet(qm_get(x._bundles, u), qm_get(y._bundles, u))),
        "str")


@contract("prov.model.ProvDocument.__eq__", props=["C04", "C13"])
def ProvDocument_eq(self: "ProvDocument", other: "Val") -> "bool":
    pure()
    requires("records-wf", RecordsWF(self) and BundlesWF(self))
    requires("other-records-wf", implies(isinst(other, "ProvDocument"),
                                         RecordsWF(as_ref(other, "ProvDocument")) and BundlesWF(as_ref(other, "ProvDocument"))))
    invariant("L1", "bundles-so-far-match",
              forall(lambda j: implies(0 <= j and j < _i,
                                       qm_has(other._bundles, _elem(j)[0])
                                       and SameRecordSet(_elem(j)[1], qm_get(other._bundles, _elem(j)[0]))), "int"))
    ensures("same-content", result == (isinst(other, "ProvDocument")
                                       and SameRecordSet(self, as_ref(other, "ProvDocument"))
                                       and SameBundles(self, as_ref(other, "ProvDocument"))))
