"""Bundles: the record list and its identifier index (C18), record creation and copying (C05, C09)."""

inline(
    "prov.model.ProvBundle.is_document",
    "prov.model.ProvBundle.is_bundle",
    "prov.model.ProvBundle.has_bundles",
    "prov.model.ProvDocument.is_document",
    "prov.model.ProvDocument.is_bundle",
    "prov.model.ProvDocument.has_bundles",
    "prov.model.ProvBundle.identifier",
    "prov.model.ProvBundle.document",
)


@spec
def Idx(b: "ProvBundle") -> "bool":
    """C18: for every identifier URI u, the index entry is the sub-list of the records whose identifier
    denotes u, in insertion order (absent == empty); anonymous records are in no entry"""
    return forall(lambda u: same(qm_get(b._id_map, u), recs_with_id(b._records, u))
                  and implies(qm_has(b._id_map, u), qm_key(b._id_map, u).uri == u), "str")


@spec
def RecordsAllocated(b: "ProvBundle") -> "bool":
    return forall(lambda r: implies(seq_has(b._records, r), allocated(r) and IdOK(r) and r._bundle is not None and r._bundle == b), "ProvRecord")


@spec
def RecordsAttrsWF(b: "ProvBundle") -> "bool":
    return forall(lambda r: implies(seq_has(b._records, r), AttrsWF(r)), "ProvRecord")


@spec
def RecordsFormalSingle(b: "ProvBundle") -> "bool":
    return forall(lambda r: implies(seq_has(b._records, r), FormalSingle(r)), "ProvRecord")


@spec
def RecordsStoredOK(b: "ProvBundle") -> "bool":
    return forall(lambda r: implies(seq_has(b._records, r), AllStoredOK(r)), "ProvRecord")


@spec
def RecordsKeysOK(b: "ProvBundle") -> "bool":
    return forall(lambda r: implies(seq_has(b._records, r), KeysOK(r)), "ProvRecord")


@spec
def RecordsOK(b: "ProvBundle") -> "bool":
    """every listed record is an allocated ProvRecord in normal form that belongs to this bundle"""
    return RecordsAllocated(b) and RecordsAttrsWF(b) and RecordsFormalSingle(b) and RecordsStoredOK(b) and RecordsKeysOK(b)


@spec
def BundleInv(b: "ProvBundle") -> "bool":
    return Idx(b) and RecordsOK(b) and NSM_Inv(b._namespaces)


@contract("prov.model.ProvBundle._add_record", props=["C18", "C09"])
def _add_record(self: "ProvBundle", record: "ProvRecord") -> "none":
    requires("index", Idx(self))
    requires("identifier-ok", IdOK(record))
    modifies(self, "_records", "_id_map")
    ensures("appended", same(self._records, seq_concat(old(self._records), seq_unit(record))))
    ensures("index", Idx(self))


@contract("prov.model.ProvBundle.records", props=["C18", "C12", "C13"])
def records(self: "ProvBundle") -> "Seq[ProvRecord]":
    pure()
    ensures("all-records-in-order", same(result, self._records))


@contract("prov.model.ProvBundle.get_records#by-class", props=["C18"])
def get_records_by_class(self: "ProvBundle", class_or_type_or_tuple: "cls") -> "Seq[ProvRecord]":
    pure()
    note("the result is a lazy filter object; the postcondition is about list(result). A tuple of classes is "
         "not covered by this variant")
    ensures("instances-in-order", same(result, recs_of_class(self._records, class_or_type_or_tuple)))


@contract("prov.model.ProvBundle.get_record", props=["C18"])
def get_record(self: "ProvBundle", identifier: "Val") -> "Opt[Seq[ProvRecord]]":
    requires("index", Idx(self))
    requires("namespaces", NSM_Inv(self._namespaces))
    requires("identifier-kinds", IdArgOK(identifier))
    modifies(self._namespaces, "<dict>", "_namespaces", "_uri_map", "_rename_map", "_prefix_renamed_map", "_default")
    ensures("none-for-none", implies(is_none(identifier), result is None))
    ensures("by-qualified-name", implies(is_qn(identifier), result is not None
                                         and same(the(result), recs_with_id(self._records, as_qn(identifier).uri))))
    ensures("by-prefixed-text", implies(IsText(identifier) and old(Prefixed(TextOf(identifier)) and PrefixOf(TextOf(identifier)) in self._namespaces),
                                        result is not None and same(the(result), recs_with_id(
                                            self._records, old(self._namespaces[PrefixOf(TextOf(identifier))]).uri + LocalOf(TextOf(identifier))))))
    ensures("by-full-uri", implies(IsText(identifier) and old(CompactionCase(self._namespaces, TextOf(identifier))),
                                   result is not None and same(the(result), recs_with_id(self._records, TextOf(identifier)))))
    ensures("by-local-name", implies(IsText(identifier) and TextOf(identifier) != "" and not contains(TextOf(identifier), ":")
                                     and old(self._namespaces._default is not None),
                                     result is not None and same(the(result), recs_with_id(
                                         self._records, old(self._namespaces._default).uri + TextOf(identifier)))))
    ensures("index-kept", Idx(self) and same(self._records, old(self._records)))


# ---------------------------------------------------------------------------------------------- creating records
@spec
def IdArgOK(identifier: "Val") -> "bool":
    return (not is_other(identifier) and implies(is_qn(identifier), QNameOK(as_qn(identifier)))
            and implies(is_ident(identifier), contains(as_ident(identifier).uri, ":")))


@contract("prov.model.ProvBundle.new_record", props=["C05", "C09", "C18"])
def new_record(self: "ProvBundle", record_type: "QN", identifier: "Val",
               attributes: "Opt[Seq[Tup[Val,Val]]]" = None, other_attributes: "Opt[Seq[Tup[Val,Val]]]" = None) -> "ProvRecord":
    note("attributes/other_attributes in dict form are turned into the same pair list by the first statements; "
         "the contract is stated for the pair-list form")
    requires("bundle", BundleInv(self))
    requires("record-type", table_has(PROV_REC_CLS, record_type))
    requires("identifier", IdArgOK(identifier))
    requires("args", (attributes is None or ArgsOK(attributes)) and (other_attributes is None or ArgsOK(other_attributes)))
    allocates("ProvRecord")
    modifies(self, "_records", "_id_map")
    modifies(self._namespaces, "<dict>", "_namespaces", "_uri_map", "_rename_map", "_prefix_renamed_map", "_default")
    raises(ProvException)
    raises(ValueError)
    raises(TypeError)
    ensures("fresh", fresh(result))
    ensures("appended", same(self._records, seq_concat(old(self._records), seq_unit(result))))
    ensures("kind", same(result._prov_type, some(table_key(PROV_REC_CLS, record_type))))
    ensures("belongs-here", result._bundle is not None and result._bundle == self)
    ensures("identifier-kept", implies(is_qn(identifier), result._identifier is not None
                                       and result._identifier.uri == as_qn(identifier).uri))
    ensures("anonymous", implies(is_none(identifier), result._identifier is None))
    ensures("nf", NF(result) and IdOK(result))
    ensures("index", Idx(self))
    ensures("records-allocated", RecordsAllocated(self))
    ensures("records-attrs-wf", RecordsAttrsWF(self))
    ensures("records-formal-single", RecordsFormalSingle(self))
    ensures("records-stored-ok", RecordsStoredOK(self))
    ensures("records-keys-ok", RecordsKeysOK(self))
    ensures("namespaces-inv", NSM_Inv(self._namespaces))
    ensures("given-are-stored", StoredFrom(result, attributes, other_attributes))
    ensures("only-given-are-stored", implies(AllNormalOpt(attributes) and AllNormalOpt(other_attributes),
                                             OnlyFrom(result, attributes, other_attributes)))
    ensures("existing-records-untouched", forall(lambda r: implies(old(allocated(r)), same(r._attributes, old(r._attributes))
                                                                   and same(r._identifier, old(r._identifier))
                                                                   and same(r._bundle, old(r._bundle))), "ProvRecord"))


# ---------------------------------------------------------------------------------------------- record views used for copying
@spec
def StrictSame(v: "Val", w: "Val") -> "bool":
    # the same value of the same kind (qualified names: the same URI; the prefix is free)
    return same(v, w) or (is_qn(v) and is_qn(w) and as_qn(v).uri == as_qn(w).uri)


@contract("prov.model.ProvRecord.formal_attributes", props=["C09", "C08", "C12", "C13"])
def formal_attributes(self: "ProvRecord") -> "Seq[Tup[Val,Val]]":
    pure()
    reveal("NormalPair")
    requires("nf", NF(self))
    ensures("members", forall(lambda p: implies(seq_has(result, p), is_qn(p[0]) and is_formal(self, PairU(p))
                                                and same(p[1], vs_first(qm_get(self._attributes, PairU(p))))), "Tup[Val,Val]"))
    ensures("every-formal-attribute-listed",
            forall(lambda u: implies(is_formal(self, u),
                                     exists_in(result, lambda p: is_qn(p[0]) and PairU(p) == u
                                               and same(p[1], vs_first(qm_get(self._attributes, u))))), "str"))
    ensures("normal", implies(FormalSingle(self), AllNormal(result)))


@contract("prov.model.ProvRecord.extra_attributes", props=["C09", "C08", "C12", "C13"])
def extra_attributes(self: "ProvRecord") -> "Seq[Tup[Val,Val]]":
    pure()
    reveal("NormalPair", "canon_in")
    requires("nf", NF(self))
    axiom("a member of a sequence sits at some index", seq_member_index_lemma(self.attributes))
    ensures("members", forall(lambda p: implies(seq_has(result, p),
                                                is_qn(p[0]) and not is_formal(self, PairU(p))
                                                and vs_has(qm_get(self._attributes, PairU(p)), PairC(p))
                                                and same(vs_rep(qm_get(self._attributes, PairU(p)), PairC(p)), p[1])), "Tup[Val,Val]"))
    ensures("every-extra-pair-listed",
            forall(lambda u, c: implies(vs_has(qm_get(self._attributes, u), c) and not is_formal(self, u),
                                        exists(lambda p: seq_has(result, p) and is_qn(p[0]) and PairU(p) == u and same(PairC(p), c), "Tup[Val,Val]")),
                   "str", "Val"))
    ensures("normal", AllNormal(result))


@spec
def FormalSingleAll(r: "ProvRecord") -> "bool":
    # every formal attribute single-valued, a membership's prov:entity included (what C09 claims: the
    # multi-entity membership of the PROV-JSON compatibility path is outside)
    return forall(lambda u: implies(uri_in(u, PROV_ATTRIBUTES), vs_n(qm_get(r._attributes, u)) <= 1), "str")


@spec
def SourceOK(r: "ProvRecord") -> "bool":
    return allocated(r) and NF(r) and FormalSingleAll(r) and IdOK(r) and r._prov_type is not None


@contract("prov.model.ProvBundle.add_record", props=["C09", "C12", "C18"])
def add_record(self: "ProvBundle", record: "ProvRecord") -> "ProvRecord":
    requires("bundle", BundleInv(self))
    requires("source", SourceOK(record))
    allocates("ProvRecord")
    modifies(self, "_records", "_id_map")
    modifies(self._namespaces, "<dict>", "_namespaces", "_uri_map", "_rename_map", "_prefix_renamed_map", "_default")
    raises(ProvException)
    raises(ValueError)
    raises(TypeError)
    ensures("fresh", fresh(result))
    ensures("appended", same(self._records, seq_concat(old(self._records), seq_unit(result))))
    ensures("belongs-here", result._bundle is not None and result._bundle == self)
    # C09: the copy has the same type, the same identifier URI and the same set of (name URI, value) pairs
    ensures("same-type", same(result._prov_type, record._prov_type))
    ensures("same-identifier", SameId(result, record))
    ensures("source-unchanged-early", same(record._attributes, old(record._attributes)))
    ensures("every-stored-pair-is-passed-on",
            forall(lambda u, c: implies(old(vs_has(qm_get(record._attributes, u), c)),
                                        exists_in(old(record.formal_attributes), lambda p: NormalPair(p) and not is_none(p[1]) and PairU(p) == u and same(PairC(p), c))
                                        or exists_in(old(record.extra_attributes), lambda p: NormalPair(p) and not is_none(p[1]) and PairU(p) == u and same(PairC(p), c))),
                   "str", "Val"), internal=True)
    ensures("attributes-kept", forall(lambda u, c: implies(vs_has(qm_get(record._attributes, u), c),
                                                           vs_has(qm_get(result._attributes, u), c)), "str", "Val"),
            using=["every-stored-pair-is-passed-on", "source-unchanged-early"])
    ensures("formal-pairs-are-stored-pairs",
            forall_in(old(record.formal_attributes), lambda p: implies(not is_none(p[1]), old(vs_has(qm_get(record._attributes, PairU(p)), PairC(p))))),
            internal=True)
    ensures("extra-pairs-are-stored-pairs",
            forall_in(old(record.extra_attributes), lambda p: old(vs_has(qm_get(record._attributes, PairU(p)), PairC(p)))),
            internal=True)
    ensures("attributes-not-invented", forall(lambda u, c: implies(vs_has(qm_get(result._attributes, u), c),
                                                                   vs_has(qm_get(record._attributes, u), c)), "str", "Val"),
            using=["formal-pairs-are-stored-pairs", "extra-pairs-are-stored-pairs", "source-unchanged-early"])
    ensures("same-record-key", EqRecord(result, record),
            using=["same-type", "same-identifier", "attributes-kept", "attributes-not-invented"])
    ensures("source-unchanged", same(record._attributes, old(record._attributes)) and same(record._identifier, old(record._identifier))
            and same(record._bundle, old(record._bundle)))
    ensures("nf", NF(result) and IdOK(result))
    ensures("bundle-inv", BundleInv(self))
    ensures("existing-records-untouched", forall(lambda r: implies(old(allocated(r)), same(r._attributes, old(r._attributes))
                                                                   and same(r._identifier, old(r._identifier))
                                                                   and same(r._bundle, old(r._bundle))), "ProvRecord"))


# ---------------------------------------------------------------------------------------------- containers
@spec
def SourcesOK(records: "Seq[ProvRecord]") -> "bool":
    return forall_in(records, lambda r: SourceOK(r))


@spec
def CopiedUpTo(dst: "Seq[ProvRecord]", offset: "int", src: "Seq[ProvRecord]", upto: "int") -> "bool":
    """dst[offset + j] is a content-equal copy of src[j] for j < upto (order preserved)"""
    return forall(lambda j: implies(0 <= j and j < upto, EqRecord(seq_nth(dst, offset + j), seq_nth(src, j))), "int")


@spec
def Untouched(r: "ProvRecord") -> "bool":
    return same(r._attributes, old(r._attributes)) and same(r._identifier, old(r._identifier)) and same(r._bundle, old(r._bundle))


@spec
def AllocatedUntouched() -> "bool":
    return forall(lambda r: implies(old(allocated(r)), Untouched(r)), "ProvRecord")


@spec
def NewFrom(recs: "Seq[ProvRecord]", start: "int") -> "bool":
    return forall(lambda j: implies(start <= j and j < seq_len(recs), fresh(seq_nth(recs, j))), "int")


@contract("prov.model.ProvBundle.__init__", props=["C09", "C12", "C18"])
def ProvBundle_init(self: "ProvBundle", records: "Opt[Seq[ProvRecord]]" = None, identifier: "Opt[QN]" = None,
                    namespaces: "Opt[Seq[Ns]]" = None, document: "Opt[ProvDocument]" = None) -> "none":
    note("records: any iterable of records is modelled as the list of its elements")
    requires("identifier", identifier is None or QNameOK(identifier))
    requires("namespaces", NamespacesArgOK(namespaces))
    requires("document", document is None or (NSM_Local(document._namespaces) and document._namespaces.parent is None
                                               and allocated(document._namespaces)))
    requires("self-allocated", allocated(self))
    requires("document-is-another-object", document is None or document != self)
    requires("records", records is None or SourcesOK(the(records)))
    axiom("appending one element to a list (length, last and earlier positions)", seq_snoc_lemma("ProvRecord"))
    uses("prov.model.ProvBundle.add_record", "fresh", "appended", "same-record-key", "existing-records-untouched", "bundle-inv",
         "nf", "belongs-here", "source-unchanged")
    allocates("NamespaceManager")
    allocates("ProvRecord", when=records is not None)
    modifies(self, "_identifier", "_records", "_id_map", "_document", "_namespaces")
    raises(ProvException, when=records is not None)
    raises(ValueError, when=records is not None)
    raises(TypeError, when=records is not None)
    invariant("L1", "fields", same(self._identifier, identifier) and same(self._document, document))
    invariant("L1", "own-fresh-manager", fresh(self._namespaces))
    invariant("L1", "manager-parent", same(self._namespaces.parent, document._namespaces if document is not None else None))
    invariant("L1", "index", Idx(self))
    invariant("L1", "namespaces-inv", NSM_Inv(self._namespaces))
    invariant("L1", "records-allocated", RecordsAllocated(self))
    invariant("L1", "records-attrs-wf", RecordsAttrsWF(self))
    invariant("L1", "records-formal-single", RecordsFormalSingle(self))
    invariant("L1", "records-stored-ok", RecordsStoredOK(self))
    invariant("L1", "records-keys-ok", RecordsKeysOK(self))
    invariant("L1", "count", seq_len(self._records) == _i)
    invariant("L1", "copied", CopiedUpTo(self._records, 0, the(records), _i))
    invariant("L1", "new-records-fresh", NewFrom(self._records, 0))
    invariant("L1", "sources-untouched", AllocatedUntouched())
    ensures("fields", same(self._identifier, identifier) and same(self._document, document))
    ensures("own-fresh-manager", fresh(self._namespaces))
    ensures("manager-parent", same(self._namespaces.parent, document._namespaces if document is not None else None))
    ensures("index", Idx(self))
    ensures("namespaces-local-inv", NSM_Local(self._namespaces))
    ensures("no-records", implies(records is None, seq_len(self._records) == 0))
    ensures("nothing-handed-out", implies(records is None, InvHanded(self._namespaces)))
    # C09 / C12 / C18: construction from records = content-equal, new record objects in the same order
    ensures("records-copied", implies(records is not None and seq_len(the(records)) > 0,
                                      seq_len(self._records) == seq_len(the(records))
                                      and CopiedUpTo(self._records, 0, the(records), seq_len(the(records)))
                                      and NewFrom(self._records, 0)))
    ensures("sources-untouched", AllocatedUntouched())


@spec
def RecordsSourceOK(b: "ProvBundle") -> "bool":
    return forall_in(b._records, lambda r: SourceOK(r))


@contract("prov.model.ProvBundle.update", props=["C09", "C12", "C18"])
def ProvBundle_update(self: "ProvBundle", other: "ProvBundle") -> "none":
    note("stated for a ProvBundle argument (anything else raises ProvException in the last branch)")
    requires("bundle", BundleInv(self))
    requires("other-records", RecordsSourceOK(other))
    requires("other-is-another-object", other != self)
    axiom("appending one element to a list (length, last and earlier positions)", seq_snoc_lemma("ProvRecord"))
    uses("prov.model.ProvBundle.add_record", "fresh", "appended", "same-record-key", "existing-records-untouched", "bundle-inv",
         "nf", "belongs-here", "source-unchanged")
    allocates("ProvRecord")
    modifies(self, "_records", "_id_map")
    modifies(self._namespaces, "<dict>", "_namespaces", "_uri_map", "_rename_map", "_prefix_renamed_map", "_default")
    raises(ProvException)
    raises(ValueError)
    raises(TypeError)
    invariant("L1", "index", Idx(self))
    invariant("L1", "namespaces-inv", NSM_Inv(self._namespaces))
    invariant("L1", "records-allocated", RecordsAllocated(self))
    invariant("L1", "records-attrs-wf", RecordsAttrsWF(self))
    invariant("L1", "records-formal-single", RecordsFormalSingle(self))
    invariant("L1", "records-stored-ok", RecordsStoredOK(self))
    invariant("L1", "records-keys-ok", RecordsKeysOK(self))
    invariant("L1", "count", seq_len(self._records) == old(seq_len(self._records)) + _i)
    invariant("L1", "old-records-kept", forall(lambda j: implies(0 <= j and j < old(seq_len(self._records)),
                                                                 seq_nth(self._records, j) == old(seq_nth(self._records, j))), "int"))
    invariant("L1", "copied", CopiedUpTo(self._records, old(seq_len(self._records)), old(other._records), _i))
    invariant("L1", "sources-untouched", AllocatedUntouched())
    invariant("L1", "other-kept", same(other._records, old(other._records)) and same(self._namespaces, old(self._namespaces)))
    # C12: what is appended are new objects (never other's record objects themselves)
    invariant("L1", "new-records-fresh", NewFrom(self._records, old(seq_len(self._records))))
    ensures("new-records-fresh", NewFrom(self._records, old(seq_len(self._records))))
    ensures("count", seq_len(self._records) == old(seq_len(self._records)) + old(seq_len(other._records)))
    ensures("old-records-kept", forall(lambda j: implies(0 <= j and j < old(seq_len(self._records)),
                                                         seq_nth(self._records, j) == old(seq_nth(self._records, j))), "int"))
    ensures("others-records-copied", CopiedUpTo(self._records, old(seq_len(self._records)), old(other._records), old(seq_len(other._records))))
    ensures("existing-records-untouched", AllocatedUntouched())
    ensures("other-unchanged", same(other._records, old(other._records)))
    ensures("index", Idx(self))
    ensures("namespaces-inv", NSM_Inv(self._namespaces))
    ensures("records-allocated", RecordsAllocated(self))
    ensures("records-attrs-wf", RecordsAttrsWF(self))
    ensures("records-formal-single", RecordsFormalSingle(self))
    ensures("records-stored-ok", RecordsStoredOK(self))
    ensures("records-keys-ok", RecordsKeysOK(self))


# ---------------------------------------------------------------------------------------------- documents
@spec
def DocInv(d: "ProvDocument") -> "bool":
    """document-level structure: own records/index/namespaces in order, its manager has no parent, every
    bundle is registered under its own identifier URI and is a different object with the document as parent"""
    return DocOwn(d) and BundlesOK(d)


@spec
def DocOwn(d: "ProvDocument") -> "bool":
    return Idx(d) and NSM_Local(d._namespaces) and d._namespaces.parent is None and allocated(d) and allocated(d._namespaces)


@spec
def BundlesOK(d: "ProvDocument") -> "bool":
    return forall(lambda u: implies(qm_has(d._bundles, u),
                                    qm_key(d._bundles, u).uri == u and BundleOf(d, qm_get(d._bundles, u), u)), "str")


@spec
def WasNoBundle(d: "ProvDocument", u: "str") -> "bool":
    return not old(qm_has(d._bundles, u))


@spec
def BundleOf(d: "ProvDocument", b: "ProvBundle", u: "str") -> "bool":
    return (b != d and allocated(b) and b._identifier is not None and b._identifier.uri == u
            and b._document is not None and b._document == d
            and b._namespaces != d._namespaces and allocated(b._namespaces)
            and b._namespaces.parent is not None and b._namespaces.parent == d._namespaces
            and Idx(b) and NSM_Local(b._namespaces))


@contract("prov.model.ProvDocument.__init__", props=["C09", "C12", "C18"])
def ProvDocument_init(self: "ProvDocument", records: "Opt[Seq[ProvRecord]]" = None, namespaces: "Opt[Seq[Ns]]" = None) -> "none":
    requires("namespaces", NamespacesArgOK(namespaces))
    requires("self-allocated", allocated(self))
    requires("records", records is None or SourcesOK(the(records)))
    allocates("NamespaceManager")
    allocates("ProvRecord", when=records is not None)
    modifies(self, "_identifier", "_records", "_id_map", "_document", "_namespaces", "_bundles")
    raises(ProvException, when=records is not None)
    raises(ValueError, when=records is not None)
    raises(TypeError, when=records is not None)
    ensures("own-fresh-manager", fresh(self._namespaces))
    ensures("no-records", implies(records is None, seq_len(self._records) == 0))
    ensures("no-bundles", forall(lambda u: not qm_has(self._bundles, u), "str"))
    ensures("doc-inv", DocInv(self))
    ensures("nothing-handed-out", implies(records is None, InvHanded(self._namespaces)))
    ensures("records-copied", implies(records is not None and seq_len(the(records)) > 0,
                                      seq_len(self._records) == seq_len(the(records))
                                      and CopiedUpTo(self._records, 0, the(records), seq_len(the(records)))
                                      and NewFrom(self._records, 0)))
    ensures("sources-untouched", AllocatedUntouched())


@contract("prov.model.ProvDocument.bundle", props=["C09", "C12"])
def ProvDocument_bundle(self: "ProvDocument", identifier: "Val") -> "ProvBundle":
    requires("doc-own", DocOwn(self))
    requires("identifier", IdArgOK(identifier))
    allocates("ProvBundle", "NamespaceManager")
    modifies(self, "_bundles")
    modifies(self._namespaces, "<dict>", "_namespaces", "_uri_map", "_rename_map", "_prefix_renamed_map", "_default")
    raises(ProvException, ensures=same(self._bundles, old(self._bundles)) and same(self._records, old(self._records)))
    ensures("fresh-bundle", fresh(result) and fresh(result._namespaces))
    ensures("registered", result._identifier is not None and qm_has(self._bundles, result._identifier.uri)
            and qm_get(self._bundles, result._identifier.uri) == result)
    ensures("was-not-there", WasNoBundle(self, result._identifier.uri))
    ensures("identifier-kept", implies(is_qn(identifier), result._identifier.uri == as_qn(identifier).uri))
    ensures("other-bundles-kept", forall(lambda u: implies(u != result._identifier.uri,
                                                           qm_has(self._bundles, u) == old(qm_has(self._bundles, u))
                                                           and implies(qm_has(self._bundles, u), qm_get(self._bundles, u) == old(qm_get(self._bundles, u)))), "str"))
    ensures("empty", seq_len(result._records) == 0)
    ensures("own-records-kept", same(self._records, old(self._records)))
    ensures("new-bundle-ok", BundleOf(self, result, result._identifier.uri))
    ensures("doc-own", DocOwn(self))
    note("not proved here: BundlesOK(self) for the bundles that were already there (their objects are untouched: "
         "other-bundles-kept + the frame); the solvers time out on the combined statement")


inline("prov.model.NamespaceManager.get_registered_namespaces", "prov.model.ProvBundle.get_registered_namespaces")


@contract("prov.model.ProvBundle.namespaces", props=["C09", "C12", "C13"])
def ProvBundle_namespaces(self: "ProvBundle") -> "Seq[Ns]":
    pure()
    requires("inv", NSM_Local(self._namespaces))
    note("the result is a python set; it is modelled as a list of its members in some order")
    ensures("registered-namespaces", forall_in(result, lambda n: n.prefix in self._namespaces._namespaces
                                               and same(self._namespaces._namespaces[n.prefix], n)))
    ensures("usable-as-constructor-argument", NamespacesArgOK(some(result)))


@spec
def DocUnchanged(d: "ProvDocument") -> "bool":
    return same(d._bundles, old(d._bundles)) and same(d._records, old(d._records)) and same(d._id_map, old(d._id_map))


@contract("prov.model.ProvDocument.add_bundle", props=["C09", "C12"])
def ProvDocument_add_bundle(self: "ProvDocument", bundle: "ProvBundle", identifier: "Val" = None) -> "none":
    note("stated for a ProvBundle/ProvDocument argument (anything else raises ProvException in the first branch)")
    requires("doc-own", DocOwn(self))
    requires("argument", bundle != self and allocated(bundle) and Idx(bundle) and NSM_Local(bundle._namespaces)
             and allocated(bundle._namespaces) and bundle._namespaces != self._namespaces
             and (bundle._namespaces.parent is None or bundle._namespaces.parent == self._namespaces)
             and implies(bundle._identifier is not None, QNameOK(bundle._identifier)) and RecordsSourceOK(bundle)
             and InvHanded(bundle._namespaces))
    requires("identifier", IdArgOK(identifier))
    allocates("ProvBundle", "NamespaceManager", "ProvRecord")
    modifies(self, "_bundles")
    modifies(bundle, "_identifier", "_document")
    modifies(bundle._namespaces, "parent", "<dict>", "_namespaces", "_uri_map", "_rename_map", "_prefix_renamed_map", "_default")
    modifies(self._namespaces, "<dict>", "_namespaces", "_uri_map", "_rename_map", "_prefix_renamed_map", "_default")
    # refusals leave the document as it was (C09)
    raises(ProvException, ensures=DocUnchanged(self))
    raises(ValueError, ensures=DocUnchanged(self))
    raises(TypeError, ensures=DocUnchanged(self))
    ensures("own-records-kept", same(self._records, old(self._records)) and same(self._id_map, old(self._id_map)))
    ensures("one-bundle-added", exists(lambda u: not old(qm_has(self._bundles, u)) and qm_has(self._bundles, u)
                                       and forall(lambda w: implies(w != u, qm_has(self._bundles, w) == old(qm_has(self._bundles, w))
                                                                    and implies(qm_has(self._bundles, w), qm_get(self._bundles, w) == old(qm_get(self._bundles, w)))), "str")
                                       and Attached(self, bundle, qm_get(self._bundles, u), u), "str"))


@spec
def Attached(d: "ProvDocument", arg: "ProvBundle", b: "ProvBundle", u: "str") -> "bool":
    """b is what ended up registered under u: the argument itself when it is a plain bundle, a new bundle with
    content-equal copies of all its records when it is a (bundle-free) document"""
    return (b._identifier is not None and b._identifier.uri == u and b._document is not None and b._document == d
            and b._namespaces.parent is not None and b._namespaces.parent == d._namespaces
            and (b == arg if not old(isinst(arg, "ProvDocument"))
                 else (fresh(b) and fresh(b._namespaces) and seq_len(b._records) == old(seq_len(arg._records))
                       and CopiedUpTo(b._records, 0, old(arg._records), old(seq_len(arg._records))))))


# ---------------------------------------------------------------------------------------------- record copy (C12, C08)
@contract("prov.model.ProvRecord.copy", props=["C12", "C08", "C13"])
def ProvRecord_copy(self: "ProvRecord") -> "ProvRecord":
    note("the copy belongs to the same bundle object (documented: 'exact copy'); C12's claim is about the record's "
         "own content: a new object with its own attribute table")
    requires("record", SourceOK(self) and self._bundle is not None and BundleInv(self._bundle))
    requires("known-kind", table_has(PROV_REC_CLS, self._prov_type))
    allocates("ProvRecord")
    modifies(self._bundle._namespaces, "<dict>", "_namespaces", "_uri_map", "_rename_map", "_prefix_renamed_map", "_default")
    raises(ProvException)
    raises(ValueError)
    raises(TypeError)
    ensures("fresh", fresh(result))
    ensures("same-bundle", result._bundle is not None and result._bundle == self._bundle)
    ensures("source-unchanged", same(self._attributes, old(self._attributes)) and same(self._identifier, old(self._identifier)))
    ensures("bundle-records-unchanged", same(self._bundle._records, old(self._bundle._records)))
    ensures("nf", NF(result))
    # C08: an exact copy - the same type, identifier and attribute pairs
    reveal("canon_in")
    axiom("a member of a sequence sits at some index", seq_member_index_lemma(self.attributes))
    ensures("same-type", same(result._prov_type, self._prov_type))
    ensures("same-identifier", same(result._identifier, self._identifier))
    ensures("every-stored-pair-is-listed",
            forall(lambda u, c: implies(old(vs_has(qm_get(self._attributes, u), c)),
                                        exists_in(old(self.attributes), lambda p: NormalPair(p) and not is_none(p[1]) and PairU(p) == u and same(PairC(p), c))),
                   "str", "Val"), internal=True)
    ensures("attributes-kept", forall(lambda u, c: implies(old(vs_has(qm_get(self._attributes, u), c)),
                                                           vs_has(qm_get(result._attributes, u), c)), "str", "Val"),
            using=["every-stored-pair-is-listed"])
    ensures("listed-pairs-are-stored-pairs",
            forall(lambda p: implies(seq_has(old(self.attributes), p), old(vs_has(qm_get(self._attributes, PairU(p)), PairC(p)))), "Tup[Val,Val]"),
            internal=True)
    ensures("attributes-not-invented", forall(lambda u, c: implies(vs_has(qm_get(result._attributes, u), c),
                                                                   old(vs_has(qm_get(self._attributes, u), c))), "str", "Val"),
            using=["listed-pairs-are-stored-pairs"])
    ensures("same-record-key", EqRecord(result, self), using=["same-type", "same-identifier", "attributes-kept", "attributes-not-invented", "source-unchanged"])
