"""DOT output (C15): the quoting of text put into DOT strings."""


@contract("prov.dot._quoted", props=["C15", "C13"])
def _quoted(text: "str") -> "str":
    pure()
    note("stated for str arguments (identifiers and labels are turned into text by str() first)")
    ensures("escaped-and-delimited",
            result == '"' + replace_all(replace_all(text, "\\", "\\\\"), '"', '\\"') + '"')
    ensures("delimited", prefixof('"', result) and suffixof('"', result) and strlen(result) >= 2)
