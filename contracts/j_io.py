"""Writing a document to a file path (C17): ProvDocument.serialize over a ghost file system.

Everything outside the package is an ASSUMED contract (trusted(...)): the serializer registry, the four
serialize methods (what they write is not specified, only where), tempfile.mkstemp, os.fdopen, stream.close,
shutil.move / copy, os.remove and urlparse.  The file system is a ghost map path -> content (fs_get)."""

schema("Serializer", fields={"document": "Opt[ProvDocument]"})


@contract("prov.serializers.get")
def serializers_get(format_name: "str") -> "cls":
    trusted("the registry maps the four format names to the four serializer classes of the package "
            "(Registry.load_serializers); any other name raises DoNotExist")
    pure()
    raises(DoNotExist)
    ensures("a-serializer-class", result == clsid("ProvJSONSerializer") or result == clsid("ProvXMLSerializer")
            or result == clsid("ProvRDFSerializer") or result == clsid("ProvNSerializer"))
    # which name maps to which class (used by C16: the text / the reader depends on the format name only)
    ensures("json", (result == clsid("ProvJSONSerializer")) == (format_name == "json"))
    ensures("xml", (result == clsid("ProvXMLSerializer")) == (format_name == "xml"))
    ensures("rdf", (result == clsid("ProvRDFSerializer")) == (format_name == "rdf"))
    ensures("provn", (result == clsid("ProvNSerializer")) == (format_name == "provn"))


@contract("prov.serializers.Serializer.__init__", props=["C17"])
def Serializer_init(self: "Serializer", document: "Opt[ProvDocument]" = None) -> "none":
    modifies(self, "document")
    ensures("document-kept", same(self.document, document))


# ---------------------------------------------------------------------------------------------- assumed: the outside world
@spec
def FdName(fd: "int") -> "str":
    """the path of the file an open descriptor belongs to"""
    return uf("fd_name", "str", fd)


@contract("ext:tempfile.mkstemp")
def mkstemp() -> "Tup[int,str]":
    trusted("tempfile.mkstemp creates a new, empty file whose name did not exist before and returns an open "
            "descriptor for it and its path")
    modifies_fs()
    raises(OSError, ensures=forall(lambda p: same(fs_get(p), old(fs_get(p))), "str"))
    ensures("new-file", old(fs_get(result[1])) is None and same(fs_get(result[1]), some("")) and FdName(result[0]) == result[1]
            and uf("is_mkstemp_name", "bool", result[1]))
    ensures("nothing-else", forall(lambda p: implies(p != result[1], same(fs_get(p), old(fs_get(p)))), "str"))


@contract("ext:os.fdopen")
def fdopen(fd: "int", mode: "str" = "r") -> "Handle":
    trusted("os.fdopen wraps the descriptor in a file object; nothing is written")
    pure()
    ensures("same-file", FdName(uf("handle_fd", "int", result)) == FdName(fd))


@contract("ext:shutil.move")
def shutil_move(src: "str", dst: "str") -> "str":
    trusted("shutil.move(src, dst) for a regular file: afterwards dst holds what src held and src is gone; when it "
            "fails before completing, dst is as before (rename is atomic; the cross-device copy is NOT modelled)")
    modifies_fs()
    raises(OSError, ensures=same(fs_get(dst), old(fs_get(dst))))
    ensures("moved", same(fs_get(dst), old(fs_get(src))) and implies(src != dst, fs_get(src) is None))
    ensures("nothing-else", forall(lambda p: implies(p != src and p != dst, same(fs_get(p), old(fs_get(p)))), "str"))


@contract("ext:shutil.copy")
def shutil_copy(src: "str", dst: "str") -> "str":
    trusted("shutil.copy(src, dst): dst holds what src holds; a failure may leave dst changed")
    modifies_fs()
    raises(OSError)
    ensures("copied", same(fs_get(dst), old(fs_get(src))))
    ensures("nothing-else", forall(lambda p: implies(p != dst, same(fs_get(p), old(fs_get(p)))), "str"))


@contract("ext:os.remove")
def os_remove(path: "str") -> "none":
    trusted("os.remove deletes that file and nothing else")
    modifies_fs()
    raises(OSError, ensures=forall(lambda p: same(fs_get(p), old(fs_get(p))), "str"))
    ensures("removed", fs_get(path) is None)
    ensures("nothing-else", forall(lambda p: implies(p != path, same(fs_get(p), old(fs_get(p)))), "str"))


@contract("ext:urllib.parse.urlparse")
def urlparse(url: "str") -> "Tup[str,str,str,str,str,str]":
    trusted("urlparse splits its argument into six components; nothing is assumed about them")
    pure()
    ensures("components", result[0] == uf("url_scheme", "str", url) and result[1] == uf("url_netloc", "str", url)
            and result[2] == uf("url_path", "str", url))


# the four serializers: WHAT they write is outside (bounded batteries of C01/C02/C06/C07/C10); assumed here is only
# WHERE: into the stream they are given, i.e. into the file that stream is open on, and nowhere else - also when
# they fail half-way
@spec
def WritesOnlyTo(stream: "Handle") -> "bool":
    return forall(lambda p: implies(p != FdName(uf("handle_fd", "int", stream)), same(fs_get(p), old(fs_get(p)))), "str")


@contract("prov.serializers.provjson.ProvJSONSerializer.serialize")
def json_serialize(self: "ProvJSONSerializer", stream: "Handle") -> "none":
    trusted("writes only to the given stream (also when it raises)")
    modifies_fs()
    raises(Exception, ensures=WritesOnlyTo(stream))
    ensures("writes-only-to-the-stream", WritesOnlyTo(stream))
    ensures("file-exists", fs_get(FdName(uf("handle_fd", "int", stream))) is not None)
    ensures("appends-its-text", implies(self.document is not None and old(fs_get(FdName(uf("handle_fd", "int", stream)))) is not None,
                                        same(fs_get(FdName(uf("handle_fd", "int", stream))),
                                             some(the(old(fs_get(FdName(uf("handle_fd", "int", stream))))) + uf("ser_text", "str", "json", the(self.document))))))


@contract("prov.serializers.provxml.ProvXMLSerializer.serialize")
def xml_serialize(self: "ProvXMLSerializer", stream: "Handle", force_types: "bool" = False) -> "none":
    trusted("writes only to the given stream (also when it raises)")
    modifies_fs()
    raises(Exception, ensures=WritesOnlyTo(stream))
    ensures("writes-only-to-the-stream", WritesOnlyTo(stream))
    ensures("file-exists", fs_get(FdName(uf("handle_fd", "int", stream))) is not None)
    ensures("appends-its-text", implies(self.document is not None and old(fs_get(FdName(uf("handle_fd", "int", stream)))) is not None,
                                        same(fs_get(FdName(uf("handle_fd", "int", stream))),
                                             some(the(old(fs_get(FdName(uf("handle_fd", "int", stream))))) + uf("ser_text", "str", "xml", the(self.document))))))


@contract("prov.serializers.provn.ProvNSerializer.serialize")
def provn_serialize(self: "ProvNSerializer", stream: "Handle") -> "none":
    trusted("writes only to the given stream (also when it raises)")
    modifies_fs()
    raises(Exception, ensures=WritesOnlyTo(stream))
    ensures("writes-only-to-the-stream", WritesOnlyTo(stream))
    ensures("file-exists", fs_get(FdName(uf("handle_fd", "int", stream))) is not None)
    ensures("appends-its-text", implies(self.document is not None and old(fs_get(FdName(uf("handle_fd", "int", stream)))) is not None,
                                        same(fs_get(FdName(uf("handle_fd", "int", stream))),
                                             some(the(old(fs_get(FdName(uf("handle_fd", "int", stream))))) + uf("ser_text", "str", "provn", the(self.document))))))


@contract("prov.serializers.provrdf.ProvRDFSerializer.serialize")
def rdf_serialize(self: "ProvRDFSerializer", stream: "Handle" = None, rdf_format: "str" = "trig", PROV_N_MAP: "pyobj" = None) -> "none":
    trusted("writes only to the given stream (also when it raises)")
    modifies_fs()
    raises(Exception, ensures=WritesOnlyTo(stream))
    ensures("writes-only-to-the-stream", WritesOnlyTo(stream))
    ensures("file-exists", fs_get(FdName(uf("handle_fd", "int", stream))) is not None)
    ensures("appends-its-text", implies(self.document is not None and old(fs_get(FdName(uf("handle_fd", "int", stream)))) is not None,
                                        same(fs_get(FdName(uf("handle_fd", "int", stream))),
                                             some(the(old(fs_get(FdName(uf("handle_fd", "int", stream))))) + uf("ser_text", "str", "rdf", the(self.document))))))


@contract("prov.serializers.Serializer.serialize")
def abstract_serialize(self: "Serializer", stream: "Handle") -> "none":
    trusted("the abstract method does nothing")
    pure()


# ---------------------------------------------------------------------------------------------- C17
@spec
def DestinationFile(destination: "str") -> "str":
    """the local file a destination string names: itself, unless it is a file: URL"""
    return uf("url_path", "str", destination) if uf("url_scheme", "str", destination) == "file" else destination


@contract("prov.model.ProvDocument.serialize#to-path", props=["C17"])
def serialize_to_path(self: "ProvDocument", destination: "str", format: "str" = "json") -> "none":
    note("stated for a destination that is a file name (str); the stream and returned-string branches are not under "
         "contract. **args is passed on to the serializer unchanged")
    requires("destination-is-not-a-temporary-name", not uf("is_mkstemp_name", "bool", DestinationFile(destination)))
    allocates("Serializer")
    modifies_fs()
    raises(Exception, ensures=same(fs_get(DestinationFile(destination)), old(fs_get(DestinationFile(destination)))))
    # exact: the named file is written ...
    ensures("destination-written", implies(uf("url_netloc", "str", destination) == "", fs_get(DestinationFile(destination)) is not None))
    # ... and nothing else is (the temporary file is gone again)
    ensures("nothing-else-written", forall(lambda p: implies(p != DestinationFile(destination), same(fs_get(p), old(fs_get(p)))), "str"))
    ensures("remote-location-untouched", implies(uf("url_netloc", "str", destination) != "",
                                                 forall(lambda p: same(fs_get(p), old(fs_get(p))), "str")))


@contract("ext:os.path.exists")
def os_path_exists(path: "str") -> "bool":
    trusted("os.path.exists / lexists / isfile: whether the ghost file system has a file at that path (directories and links are not modelled)")
    pure()
    ensures("value", result == (fs_get(path) is not None))


@contract("ext:os.path.lexists")
def os_path_lexists(path: "str") -> "bool":
    trusted("see os.path.exists")
    pure()
    ensures("value", result == (fs_get(path) is not None))


@contract("ext:os.path.isfile")
def os_path_isfile(path: "str") -> "bool":
    trusted("see os.path.exists")
    pure()
    ensures("value", result == (fs_get(path) is not None))
