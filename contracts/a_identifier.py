"""Contracts for prov/identifier.py  (value classes: Identifier, QualifiedName, Namespace).

These classes are immutable values; the engine models them as SMT datatypes
    Ns  = mkNs(prefix, uri)          QN = mkQN(namespace, localpart)       Ident = uri string
and every field read is resolved through that abstraction.  The constructor contracts below are
what justifies the abstraction (each `__init__` is executed on an object under construction and
its fields are compared with the datatype's derived fields), and the `__eq__`/`__hash__`/`__str__`
contracts are what justifies translating ==, hash() and str() on such values (DESIGN 2.3).
"""

inline(
    "prov.identifier.Identifier.uri",
    "prov.identifier.Namespace.uri",
    "prov.identifier.Namespace.prefix",
    "prov.identifier.QualifiedName.namespace",
    "prov.identifier.QualifiedName.localpart",
)


@contract("prov.identifier.Identifier.__init__", props=["C03", "C04"])
def Identifier_init(uri: "str") -> "Ident":
    ensures("uri", result.uri == uri)


@contract("prov.identifier.Identifier.__str__", props=["C03", "C06", "C10", "C13"])
def Identifier_str(self: "Ident") -> "str":
    pure()
    ensures("str-is-uri", result == self.uri)


@contract("prov.identifier.Identifier.__eq__", props=["C04", "C03"])
def Identifier_eq(self: "Ident", other: "Val") -> "bool":
    pure()
    ensures("eq-by-uri", result == ((is_ident(other) and as_ident(other).uri == self.uri)
                                    or (is_qn(other) and as_qn(other).uri == self.uri)))


@contract("prov.identifier.Identifier.__hash__", props=["C04"])
def Identifier_hash(self: "Ident") -> "int":
    pure()
    ensures("hash-def", result == HashIdent(self))


@contract("prov.identifier.QualifiedName.__init__", props=["C03", "C04", "C10"])
def QualifiedName_init(namespace: "Ns", localpart: "str") -> "QN":
    ensures("value", same(result, mkQN(namespace, localpart)))
    ensures("uri", result.uri == namespace.uri + localpart)


@contract("prov.identifier.QualifiedName.__str__", props=["C03", "C06", "C10", "C13"])
def QualifiedName_str(self: "QN") -> "str":
    pure()
    ensures("str-def", result == (self.namespace.prefix + ":" + self.localpart
                                  if self.namespace.prefix != "" else self.localpart))
    ensures("str-model", result == qn_str(self))


@contract("prov.identifier.QualifiedName.__hash__", props=["C04"])
def QualifiedName_hash(self: "QN") -> "int":
    pure()
    ensures("hash-def", result == HashQN(self))


@contract("prov.identifier.Namespace.__init__", props=["C03", "C04"])
def Namespace_init(prefix: "str", uri: "str") -> "Ns":
    raises(ValueError, when=(uri == "" or uri.isspace()))
    ensures("value", same(result, mkNs(prefix, uri)))
    ensures("valid-uri", uri != "" and not uri.isspace())


@contract("prov.identifier.Namespace.__eq__", props=["C04", "C03"])
def Namespace_eq(self: "Ns", other: "Ns") -> "bool":
    pure()
    ensures("structural", result == same(self, other))


@contract("prov.identifier.Namespace.__ne__", props=["C04"])
def Namespace_ne(self: "Ns", other: "Ns") -> "bool":
    pure()
    ensures("negation-of-eq", result == (not same(self, other)))


@contract("prov.identifier.Namespace.__hash__", props=["C04"])
def Namespace_hash(self: "Ns") -> "int":
    pure()
    ensures("hash-def", result == HashNs(self))


@contract("prov.identifier.Namespace.__getitem__", props=["C03", "C10"])
def Namespace_getitem(self: "Ns", localpart: "str") -> "QN":
    pure()
    ensures("value", same(result, mkQN(self, localpart)))


@spec
def HashIdent(x: "Ident") -> "int":
    return uf("hash_str", "int", x.uri)


@spec
def HashQN(x: "QN") -> "int":
    return uf("hash_str", "int", x.uri)


@spec
def HashNs(x: "Ns") -> "int":
    return uf("hash_tuple2", "int", uf("hash_str", "int", x.uri), uf("hash_str", "int", x.prefix))
