"""Contracts for prov.model.NamespaceManager  (property C03; used by every codec property).

State view (DESIGN 5.3): tbl = the dict itself, reg = _namespaces, umap = _uri_map,
rmap = _rename_map, pmap = _prefix_renamed_map, dflt = _default, parent.
"""

schema(
    "NamespaceManager",
    dict_of=("str", "Ns"),
    fields={
        "_default_namespaces": "pyobj",
        "_namespaces": "Map[str,Ns]",
        "_default": "Opt[Ns]",
        "parent": "Opt[NamespaceManager]",
        "_anon_id_count": "int",
        "_uri_map": "Map[str,Ns]",
        "_rename_map": "Map[Ns,Ns]",
        "_prefix_renamed_map": "Map[str,Ns]",
    },
    ghost={"handed": "Set[QN]"},
)


@spec
def NsOK(n: "Ns") -> "bool":
    # what Namespace.__init__ guarantees for every Namespace object
    return n.uri != "" and not n.uri.isspace()


@spec
def Registered(M: "NamespaceManager", n: "Ns") -> "bool":
    # n is the namespace bound to its own prefix in M, and it is not a default namespace
    return n.prefix != "" and n.prefix in M and same(M[n.prefix], n)


@spec
def NSM_Local(M: "NamespaceManager") -> "bool":
    return (
        forall(lambda p: implies(p in M, M[p].prefix == p and NsOK(M[p]) and ":" not in p and p != "_"), "str")
        and forall(lambda p: implies(p in M._namespaces, Registered(M, M._namespaces[p]) and M._namespaces[p].prefix == p), "str")
        and forall(lambda u: implies(u in M._uri_map, M._uri_map[u].uri == u and Registered(M, M._uri_map[u])), "str")
        and forall(lambda n: implies(n in M._rename_map, M._rename_map[n].uri == n.uri and Registered(M, M._rename_map[n])), "Ns")
        and forall(lambda p: implies(p in M._prefix_renamed_map, Registered(M, M._prefix_renamed_map[p])), "str")
        and "prov" in M and same(M["prov"], PROV)
        and "xsd" in M and same(M["xsd"], XSD)
        and "xsi" in M and same(M["xsi"], XSI)
        and implies(M._default is not None, M._default.prefix == "" and NsOK(M._default))
        # the default namespace is bound under the empty prefix (so that full URIs in it can be compacted: C18)
        and (("" in M) == (M._default is not None))
        and implies("" in M, M._default is not None and same(M[""], M._default))
    )


@spec
def NSM_Inv(M: "NamespaceManager") -> "bool":
    # two-level structure: a bundle's manager has the document's manager as parent, which has none
    return NSM_Local(M) and implies(
        M.parent is not None,
        M.parent != M and M.parent.parent is None and NSM_Local(M.parent),
    )


@spec
def SameTables(M: "NamespaceManager") -> "bool":
    # (postcondition vocabulary) nothing observable of M changed
    return (
        same(tbl(M), old(tbl(M)))
        and same(M._namespaces, old(M._namespaces))
        and same(M._uri_map, old(M._uri_map))
        and same(M._rename_map, old(M._rename_map))
        and same(M._prefix_renamed_map, old(M._prefix_renamed_map))
        and same(M._default, old(M._default))
    )


@spec
def NoRebind(M: "NamespaceManager") -> "bool":
    # C03(b): every prefix bound before is still bound to the same namespace
    return forall(lambda p: implies(old(p in M), p in M and same(M[p], old(M[p]))), "str")


# ----------------------------------------------------------------------------------------------
@contract("prov.model.NamespaceManager._get_unused_prefix", props=["C03"])
def _get_unused_prefix(self: "NamespaceManager", original_prefix: "str") -> "str":
    invariant("L1", "count-positive", count >= 1)
    ensures("unused", result not in self)
    ensures("same-if-free", implies(original_prefix not in self, result == original_prefix))
    ensures("well-formed", implies(":" not in original_prefix and original_prefix != "_",
                                   ":" not in result and result != "_"))
    ensures("shape", result == original_prefix
            or exists(lambda c: c >= 1 and result == original_prefix + "_" + int_str(c), "int"))


@lemma("minted-prefix-shape", props=["C03"])
def minted_prefix_shape(p: "str", c: "int"):
    # what callers need from the shape clause: a minted prefix is non-empty and colon-free
    assume(c >= 1)
    r = p + "_" + int_str(c)
    prove("non-empty", r != "")
    prove("no-colon", implies(":" not in p, ":" not in r))


@contract("prov.model.NamespaceManager.get_namespace", props=["C03"])
def get_namespace(self: "NamespaceManager", uri: "str") -> "Opt[Ns]":
    pure()
    requires("inv", NSM_Local(self))
    invariant("L1", "none-matched", forall(lambda j: implies(0 <= j and j < _i, _elem(j).uri != uri), "int"))
    ensures("found-is-bound", implies(result is not None, result.uri == uri and result.prefix in self
                                      and same(self[result.prefix], result)))
    ensures("none-means-absent", implies(result is None,
                                         forall(lambda p: implies(p in self, self[p].uri != uri), "str")))


@contract("prov.model.NamespaceManager.get_default_namespace", props=["C03"])
def get_default_namespace(self: "NamespaceManager") -> "Opt[Ns]":
    pure()
    ensures("is-default", same(result, self._default))


@contract("prov.model.NamespaceManager.set_default_namespace", props=["C03"])
def set_default_namespace(self: "NamespaceManager", uri: "str") -> "none":
    requires("inv", NSM_Local(self))
    # usage discipline of the property: a default namespace, once set or adopted, is not re-bound
    requires("discipline", self._default is None or self._default.uri == uri)
    modifies(self, "<dict>", "_default")
    raises(ValueError, when=(uri == "" or uri.isspace()), ensures=SameTables(self))
    ensures("default-set", self._default is not None and same(self._default, mkNs("", uri)))
    ensures("no-rebind", forall(lambda p: implies(p != "" and old(p in self), p in self and same(self[p], old(self[p]))), "str"))
    ensures("no-new-prefix", forall(lambda p: implies(p != "" and p in self, old(p in self)), "str"))
    ensures("inv", NSM_Local(self))
    ensures("handed-still-resolve", implies(old(InvHanded(self)), InvHanded(self)))
    ensures("children-handed-still-resolve", ChildrenKeepHanded(self))


@contract("prov.model.NamespaceManager.add_namespace", props=["C03"])
def add_namespace(self: "NamespaceManager", namespace: "Ns") -> "Ns":
    requires("inv", NSM_Local(self))
    requires("valid-namespace", NsOK(namespace))
    # a namespace with an empty prefix is a default namespace: set_default_namespace is its operation
    requires("prefix-nonempty", namespace.prefix != "")
    modifies(self, "<dict>", "_namespaces", "_uri_map", "_rename_map", "_prefix_renamed_map")
    ensures("uri-kept", result.uri == namespace.uri)
    ensures("registered", Registered(self, result))
    ensures("no-rebind", NoRebind(self))
    ensures("same-if-prefix-free", implies(old(namespace.prefix not in self) and old(namespace.uri not in self._uri_map)
                                           and old(namespace not in self._rename_map), same(result, namespace)))
    ensures("new-bindings-only-result", forall(lambda p: implies(p in self and not old(p in self), p == result.prefix), "str"))
    ensures("default-kept", same(self._default, old(self._default)))
    ensures("inv", NSM_Local(self))
    requires("prefix-well-formed", ":" not in namespace.prefix and namespace.prefix != "_")
    ensures("result-prefix-well-formed", ":" not in result.prefix and result.prefix != "_")
    ensures("handed-still-resolve", implies(old(InvHanded(self)), InvHanded(self)))
    ensures("children-handed-still-resolve", ChildrenKeepHanded(self))


@contract("prov.model.NamespaceManager.valid_qualified_name", props=["C03", "C18"])
def valid_qualified_name(self: "NamespaceManager", qname: "Val") -> "Opt[QN]":
    requires("inv", NSM_Inv(self))
    requires("qname-namespace-valid", implies(is_qn(qname), NsOK(as_qn(qname).namespace)))
    # an Identifier is a URI: it has a scheme, hence a colon (a colon-free Identifier with a default
    # namespace set makes Namespace.__getitem__ concatenate a non-string: outside the property's inputs)
    requires("identifier-is-uri", implies(is_ident(qname), contains(as_ident(qname).uri, ":")))
    requires("not-a-container", not is_other(qname))
    ensures("none-for-other-kinds", implies(not (is_qn(qname) or is_str(qname) or is_ident(qname)), result is None))
    ensures("result-namespace-ok", implies(result is not None, NsOK(the(result).namespace)))
    invariant("L1", "none-matched",
              forall(lambda j: implies(0 <= j and j < _i, not prefixof(_elem(j).uri, str_value)), "int"))
    after_loop("L1", "no-compaction", not exists(lambda k: k in self and prefixof(self[k].uri, str_value), "str"))
    modifies(self, "<dict>", "_namespaces", "_uri_map", "_rename_map", "_prefix_renamed_map", "_default")
    modifies(self.parent, "<dict>", "_namespaces", "_uri_map", "_rename_map", "_prefix_renamed_map", "_default")
    # C03(a): resolving a QualifiedName never changes its URI (and never fails)
    ensures("qn-uri-kept", implies(is_qn(qname), result is not None and result.uri == as_qn(qname).uri))
    # C03(b)
    ensures("no-rebind", NoRebind(self))
    ensures("inv", NSM_Inv(self))
    ensures("parent-unchanged", implies(self.parent is not None, SameTables(self.parent)))
    # resolving text changes nothing, except that a name found through the parent is anchored here
    ensures("pure-on-text", implies(not is_qn(qname) and (self.parent is None or result is None), SameTables(self)))
    ensures("default-discipline", old(self._default) is None or same(self._default, old(self._default)))
    # what the resolver does with text (A.1 of DESIGN), one clause per branch, over the pre-state tables
    ensures("text-blank", implies(IsText(qname), old(TextBlank(self, TextOf(qname), result))))
    ensures("text-registered-prefix", implies(IsText(qname), old(TextPrefix(self, TextOf(qname), result))))
    ensures("text-renamed-prefix", implies(IsText(qname), old(TextRenamed(self, TextOf(qname), result))))
    ensures("text-compaction", implies(IsText(qname), old(TextCompaction(self, TextOf(qname), result))))
    ensures("text-default", implies(IsText(qname), old(TextDefault(self, TextOf(qname), result))))
    ensures("text-delegated", implies(IsText(qname) and old(NotLocal(self, TextOf(qname))), Delegated(self, TextOf(qname), result)))
    ensures("none-for-none", implies(is_none(qname), result is None))
    requires("qname-prefix-well-formed", implies(is_qn(qname), ":" not in as_qn(qname).namespace.prefix
                                                 and as_qn(qname).namespace.prefix != "_"))
    ensures("result-prefix-well-formed", implies(result is not None, ":" not in the(result).namespace.prefix
                                                  and the(result).namespace.prefix != "_"))
    ghost_set(self, "handed", set_add(old(self.handed), the(result)) if result is not None else old(self.handed))
    ensures("parent-handed", implies(self.parent is not None and WellFormedText(qname) and old(InvHanded(self.parent)), InvHanded(self.parent)),
            unless=DefaultCompactable(self, qname), finding="KF-C03-compaction-into-default")
    ensures("result-well-formed", implies(result is not None and GivenNameWellFormed(qname) and WellFormedText(qname), WellFormedName(the(result))),
            unless=DefaultCompactable(self, qname), finding="KF-C03-compaction-into-default")
    ensures("result-anchored", implies(result is not None, HandedLocal(self, the(result))))
    # full-URI text that a registered namespace can compact denotes that very URI (needed by C18)
    ensures("compaction-keeps-uri", implies((is_str(qname) or is_ident(qname)) and result is not None
                                            and old(CompactionCase(self, TextOf(qname))),
                                            the(result).uri == TextOf(qname)))
    ensures("handed-still-resolve", implies(GivenNameWellFormed(qname) and WellFormedText(qname) and old(InvHanded(self))
                                            and implies(self.parent is not None, old(InvHanded(self.parent))),
                                            InvHanded(self)),
            unless=DefaultCompactable(self, qname), finding="KF-C03-compaction-into-default")
    ensures("children-handed-still-resolve", ChildrenKeepHanded(self))


@spec
def TextOf(x: "Val") -> "str":
    return as_ident(x).uri if is_ident(x) else as_str(x)


@spec
def IsText(x: "Val") -> "bool":
    return is_str(x) or is_ident(x)


@spec
def PrefixOf(s: "str") -> "str":
    return substr(s, 0, indexof(s, ":", 0))


@spec
def LocalOf(s: "str") -> "str":
    return substr(s, indexof(s, ":", 0) + 1, strlen(s))


@spec
def Prefixed(s: "str") -> "bool":
    return s != "" and not prefixof("_:", s) and contains(s, ":")


@spec
def TextBlank(M: "NamespaceManager", s: "str", r: "Opt[QN]") -> "bool":
    return implies(s == "" or prefixof("_:", s), r is None)


@spec
def TextPrefix(M: "NamespaceManager", s: "str", r: "Opt[QN]") -> "bool":
    return implies(Prefixed(s) and PrefixOf(s) in M, r is not None and same(the(r), mkQN(M[PrefixOf(s)], LocalOf(s))))


@spec
def TextRenamed(M: "NamespaceManager", s: "str", r: "Opt[QN]") -> "bool":
    return implies(Prefixed(s) and PrefixOf(s) not in M and PrefixOf(s) in M._prefix_renamed_map,
                   r is not None and same(the(r), mkQN(M._prefix_renamed_map[PrefixOf(s)], LocalOf(s))))


@spec
def TextCompaction(M: "NamespaceManager", s: "str", r: "Opt[QN]") -> "bool":
    # the URI-compaction branch picks the first matching namespace in iteration order: relational
    return implies(CompactionCase(M, s),
                   r is not None and exists(
                       lambda k: k in M and prefixof(M[k].uri, s)
                       and same(the(r), mkQN(M[k], substr(s, strlen(M[k].uri), strlen(s) - strlen(M[k].uri)))), "str"))


@spec
def TextDefault(M: "NamespaceManager", s: "str", r: "Opt[QN]") -> "bool":
    return implies(s != "" and not prefixof("_:", s) and not contains(s, ":") and M._default is not None,
                   r is not None and same(the(r), mkQN(M._default, s)))


@spec
def NotLocal(M: "NamespaceManager", s: "str") -> "bool":
    """none of the manager's own branches applies: the text goes to the parent"""
    return s != "" and not prefixof("_:", s) and (
        (contains(s, ":") and PrefixOf(s) not in M and PrefixOf(s) not in M._prefix_renamed_map
         and not exists(lambda k: k in M and prefixof(M[k].uri, s), "str"))
        or (not contains(s, ":") and M._default is None))


@spec
def Delegated(M: "NamespaceManager", s: "str", r: "Opt[QN]") -> "bool":
    """whatever the parent finds is re-homed in M: same URI, anchored in M's tables"""
    if M.parent is None:
        return r is None
    return exists(
        lambda rp: old(ParentFinds(M.parent, s, rp))
        and ((rp is None and r is None)
             or (rp is not None and r is not None and the(r).uri == the(rp).uri and HandedLocal(M, the(r)))),
        "Opt[QN]", hint="parent_qname")


@spec
def ParentFinds(P: "NamespaceManager", s: "str", rp: "Opt[QN]") -> "bool":
    return (TextBlank(P, s, rp) and TextPrefix(P, s, rp) and TextRenamed(P, s, rp) and TextCompaction(P, s, rp)
            and TextDefault(P, s, rp) and implies(NotLocal(P, s), rp is None))


# ----------------------------------------------------------------------------------------------
# C03(c): every name a manager has handed out still denotes its URI when printed and resolved again.
# Ghost state: M.handed = the set of names valid_qualified_name has returned on M.

@spec
def WellFormedName(q: "QN") -> "bool":
    # quantifier of C03: prefixes are colon-free and not the blank-node marker "_"; a name in a
    # default namespace is a bare local name (non-empty, colon-free)
    return (
        ":" not in q.namespace.prefix
        and q.namespace.prefix != "_"
        and implies(q.namespace.prefix == "", q.localpart != "" and ":" not in q.localpart)
    )


@spec
def WellFormedText(x: "Val") -> "bool":
    # text given to the resolver is 'prefix:local' with a non-empty prefix, a bare local name or a URI:
    # it does not start with a colon
    return implies(is_str(x) or is_ident(x), not prefixof(":", TextOf(x)))


@spec
def CompactionCase(M: "NamespaceManager", s: "str") -> "bool":
    p = substr(s, 0, indexof(s, ":", 0))
    return (contains(s, ":") and not prefixof("_:", s) and p not in M and p not in M._prefix_renamed_map
            and exists(lambda k: k in M and prefixof(M[k].uri, s), "str"))


@spec
def HandedLocal(M: "NamespaceManager", q: "QN") -> "bool":
    """the name is anchored in M's own tables: printing it and resolving the text in M gives it back"""
    p = q.namespace.prefix
    if p != "":
        return p in M and same(M[p], q.namespace)
    return M._default is not None and same(M._default, q.namespace)


@spec
def InvHanded(M: "NamespaceManager") -> "bool":
    return forall(lambda q: implies(q in M.handed, WellFormedName(q) and HandedLocal(M, q)), "QN")


@spec
def ChildrenKeepHanded(M: "NamespaceManager") -> "bool":
    """an operation on a document's manager does not disturb its bundles' managers"""
    return forall(
        lambda c: implies(
            c.parent is not None and c.parent == M and c != M,
            forall(lambda q: implies(old(HandedLocal(c, q)), HandedLocal(c, q)), "QN")),
        "NamespaceManager")


@lemma("handed-names-resolve", props=["C03"])
def handed_names_resolve(M: "NamespaceManager", q: "QN", r: "Opt[QN]"):
    """C03(c) as the property states it: printing a handed-out name and resolving the text in the same
    container yields a name with the same URI.  Resolution is the verified postcondition of
    valid_qualified_name on text."""
    assume(NSM_Inv(M))
    assume(WellFormedName(q))
    assume(HandedLocal(M, q))
    assume(TextBlank(M, qn_str(q), r) and TextPrefix(M, qn_str(q), r) and TextDefault(M, qn_str(q), r))
    prove("resolves", r is not None)
    prove("same-uri", the(r).uri == q.uri)


@spec
def GivenNameWellFormed(x: "Val") -> "bool":
    return implies(is_qn(x), WellFormedName(as_qn(x)))


@spec
def DefaultCompactableIn(M: "NamespaceManager", s: "str") -> "bool":
    rem = substr(s, strlen(M[""].uri), strlen(s) - strlen(M[""].uri))
    return contains(s, ":") and "" in M and prefixof(M[""].uri, s) and (":" in rem or rem == "")


@spec
def DefaultCompactable(M: "NamespaceManager", x: "Val") -> "bool":
    """KNOWN FINDING KF-C03-compaction-into-default: a full URI given as text can be compacted against
    the *default* namespace of the scope (or of its parent) although the remainder is not a bare local
    name (it contains ':' or is empty); the name then prints as 'a:b' (or '') and no longer resolves
    to its URI.  The case is characterised by the input alone."""
    return (is_str(x) or is_ident(x)) and (
        old(DefaultCompactableIn(M, TextOf(x)))
        or (M.parent is not None and old(DefaultCompactableIn(M.parent, TextOf(x)))))


# ---------------------------------------------------------------------------------------------- construction
@spec
def NamespacesArgOK(namespaces: "Opt[Seq[Ns]]") -> "bool":
    return namespaces is None or forall_in(the(namespaces), lambda n: NsOK(n) and n.prefix != "" and ":" not in n.prefix and n.prefix != "_")


@contract("prov.model.NamespaceManager.add_namespaces", props=["C03", "C09", "C12"])
def add_namespaces(self: "NamespaceManager", namespaces: "Opt[Seq[Ns]]") -> "none":
    note("stated for a collection of Namespace objects (list/set); the dict {prefix: uri} form is converted to it "
         "by the first statement")
    requires("inv", NSM_Local(self))
    requires("namespaces", NamespacesArgOK(namespaces))
    modifies(self, "<dict>", "_namespaces", "_uri_map", "_rename_map", "_prefix_renamed_map")
    invariant("L1", "inv", NSM_Local(self))
    invariant("L1", "no-rebind", NoRebind(self))
    invariant("L1", "default-kept", same(self._default, old(self._default)) and same(self.parent, old(self.parent)))
    invariant("L1", "handed", implies(old(InvHanded(self)), InvHanded(self)))
    ensures("inv", NSM_Local(self))
    ensures("no-rebind", NoRebind(self))
    ensures("handed-still-resolve", implies(old(InvHanded(self)), InvHanded(self)))


@spec
def UriRegistered(M: "NamespaceManager", u: "str") -> "bool":
    # some prefix of M is bound to a namespace with this URI
    return exists(lambda p: p in M and M[p].uri == u, "str")


@contract("prov.model.NamespaceManager.__init__", props=["C03", "C09", "C12"])
def NamespaceManager_init(self: "NamespaceManager", namespaces: "Opt[Seq[Ns]]" = None, default: "none" = None,
                          parent: "Opt[NamespaceManager]" = None) -> "none":
    note("verified for default=None, the only way the package constructs a manager (ProvBundle.__init__)")
    requires("namespaces", NamespacesArgOK(namespaces))
    modifies(self, "<dict>", "_namespaces", "_default", "parent", "_anon_id_count", "_uri_map", "_rename_map",
             "_prefix_renamed_map", "_default_namespaces")
    ghost_set(self, "handed", empty_set("QN"))
    ensures("inv", NSM_Local(self))
    ensures("parent", same(self.parent, parent))
    ensures("no-default", self._default is None)
    ensures("nothing-handed-out", InvHanded(self))
