"""C05: records stay in normal form.  Contracts for the value-normalisation helpers, add_attributes
(the only general writer of _attributes), the other writers (add_asserted_type, set_time) and record
construction.  The normal form NF is the class invariant of ProvRecord (DESIGN 3.2 / 5.5)."""

inline(
    "prov.model.ProvBundle.valid_qualified_name",
    "prov.model.ProvRecord.get_asserted_types",
)


# ------------------------------------------------------------------------------ external (assumed, A4)
@contract("ext:dateutil.parser.parse")
def dateutil_parse(timestr: "Val") -> "DT":
    trusted("A4: dateutil.parser.parse returns a datetime for parseable text, raises ValueError otherwise, "
            "TypeError for non-text; parse(d.isoformat()) == d")
    pure()
    raises(ValueError, when=is_str(timestr) and not uf("dt_parse_ok", "bool", as_str(timestr)))
    raises(TypeError, when=not is_str(timestr))
    ensures("is-text", is_str(timestr) and uf("dt_parse_ok", "bool", as_str(timestr)))
    ensures("value", same(result, uf("dt_parse", "DT", as_str(timestr))))


# ------------------------------------------------------------------------------ helpers
@contract("prov.model._ensure_datetime", props=["C05", "C01", "C02"])
def _ensure_datetime(value: "Val") -> "Val":
    pure()
    raises(ValueError, when=is_str(value) and not uf("dt_parse_ok", "bool", as_str(value)))
    ensures("text-is-parsed", implies(is_str(value), is_dt(result) and same(as_dt(result), uf("dt_parse", "DT", as_str(value)))))
    ensures("others-unchanged", implies(not is_str(value), same(result, value)))


@contract("prov.model.parse_xsd_datetime", props=["C05", "C01", "C02"])
def parse_xsd_datetime(value: "Val") -> "Opt[DT]":
    pure()
    raises(TypeError, when=not is_str(value))
    ensures("parsed-or-none", implies(result is not None, same(the(result), uf("dt_parse", "DT", as_str(value)))))
    ensures("none-iff-unparseable", (result is not None) == uf("dt_parse_ok", "bool", as_str(value)))


@contract("prov.model.parse_boolean", props=["C05", "C01", "C02"])
def parse_boolean(value: "str") -> "Opt[bool]":
    pure()
    ensures("false-forms", implies(value.lower() == "false" or value.lower() == "0", result is not None and not the(result)))
    ensures("true-forms", implies(value.lower() == "true" or value.lower() == "1", result is not None and the(result)))
    ensures("none-otherwise", implies(not (value.lower() == "false" or value.lower() == "0" or value.lower() == "true"
                                           or value.lower() == "1"), result is None))


@spec
def ParsedAs(text: "str", dt: "QN") -> "Val":
    """the Python value a typed literal of a natively supported datatype stands for (A.2 of DESIGN);
    VNone when the datatype is not natively supported (or a boolean/dateTime lexical form is not recognised)"""
    if dt.uri == XSD_STRING.uri:
        return box(text)
    if dt.uri == XSD_INT.uri or dt.uri == XSD_LONG.uri:
        return box(uf("py_int", "int", text))
    if dt.uri == XSD_DOUBLE.uri:
        return box(uf("py_float", "Flt", text))
    if dt.uri == XSD_ANYURI.uri:
        return box(Ident(text))
    if dt.uri == XSD_BOOLEAN.uri:
        return (box(False) if (text.lower() == "false" or text.lower() == "0")
                else (box(True) if (text.lower() == "true" or text.lower() == "1") else box(None)))
    if dt.uri == XSD_DATETIME.uri:
        return box(uf("dt_parse", "DT", text)) if uf("dt_parse_ok", "bool", text) else box(None)
    return box(None)


@contract("prov.model.parse_xsd_types", props=["C05", "C01", "C02", "C11"])
def parse_xsd_types(value: "str", datatype: "QN") -> "Val":
    pure()
    raises(ValueError, when=(datatype.uri == XSD_INT.uri or datatype.uri == XSD_LONG.uri or datatype.uri == XSD_DOUBLE.uri))
    ensures("value", same(result, ParsedAs(value, datatype)))


@spec
def QNameOK(q: "QN") -> "bool":
    # what every QualifiedName produced by a namespace manager satisfies
    return NsOK(q.namespace) and ":" not in q.namespace.prefix and q.namespace.prefix != "_"


@spec
def IdOK(r: "ProvRecord") -> "bool":
    return r._identifier is None or QNameOK(r._identifier)


@spec
def ValueNF(v: "Val") -> "bool":
    """a stored attribute value is normalised: never a record object, never None, never a plain literal
    (no language tag) of a natively supported datatype with a recognised lexical form"""
    if is_ref(v) or is_none(v) or is_other(v):
        return False
    if is_lit(v) and as_lit(v).langtag is None:
        return as_lit(v).datatype is not None and is_none(ParsedAs(as_lit(v).value, as_lit(v).datatype))
    return True


@contract("prov.model.ProvRecord._auto_literal_conversion", props=["C05", "C01", "C02", "C11"])
def _auto_literal_conversion(self: "ProvRecord", literal: "Val") -> "Val":
    requires("bundle", self._bundle is not None and NSM_Inv(self._bundle._namespaces))
    requires("record-argument-is-a-record", implies(is_ref(literal), isinst(literal, "ProvRecord")))
    requires("qname-well-formed", implies(is_qn(literal), QNameOK(as_qn(literal))))
    requires("record-identifier-well-formed", implies(isinst(literal, "ProvRecord"), IdOK(as_ref(literal, "ProvRecord"))))
    requires("not-a-container", not is_other(literal))
    modifies(self._bundle._namespaces, "<dict>", "_namespaces", "_uri_map", "_rename_map", "_prefix_renamed_map", "_default")
    raises(ValueError, when=is_lit(literal))
    ensures("text-unchanged", implies(is_str(literal), same(result, literal)))
    ensures("qualified-name-same-uri", implies(is_qn(literal), is_qn(result) and as_qn(result).uri == as_qn(literal).uri))
    ensures("typed-literal-becomes-native",
            implies(is_lit(literal) and as_lit(literal).langtag is None and as_lit(literal).datatype is not None,
                    same(result, ParsedAs(as_lit(literal).value, as_lit(literal).datatype))
                    if not is_none(ParsedAs(as_lit(literal).value, as_lit(literal).datatype)) else same(result, literal)))
    ensures("untyped-literal-becomes-text",
            implies(is_lit(literal) and as_lit(literal).langtag is None and as_lit(literal).datatype is None,
                    same(result, box(as_lit(literal).value))))
    ensures("tagged-literal-unchanged", implies(is_lit(literal) and as_lit(literal).langtag is not None, same(result, literal)))
    ensures("native-unchanged", implies(is_int(literal) or is_bool(literal) or is_float(literal) or is_dt(literal) or is_ident(literal)
                                        or is_none(literal), same(result, literal)))
    ensures("normalised", implies(not is_none(result), ValueNF(result)))
    ensures("qualified-name-ok", implies(is_qn(result), QNameOK(as_qn(result))))
    ensures("namespaces-inv", NSM_Inv(self._bundle._namespaces) and NoRebind(self._bundle._namespaces))


# ------------------------------------------------------------------------------ the normal form
@spec
def NF(r: "ProvRecord") -> "bool":
    """C05: formal attributes single-valued (except prov:entity of a membership: the PROV-JSON
    compatibility path the property does not claim), reference-valued ones hold qualified names,
    time-valued ones datetimes, every other value is normalised"""
    return AttrsWF(r) and FormalSingle(r) and AllStoredOK(r) and KeysOK(r)


@spec
def KeysOK(r: "ProvRecord") -> "bool":
    # the attribute names stored as keys are well-formed qualified names
    return forall(lambda u: implies(qm_has(r._attributes, u), QNameOK(qm_key(r._attributes, u))), "str")


@spec
def FormalSingle(r: "ProvRecord") -> "bool":
    return forall(
        lambda u: implies(uri_in(u, PROV_ATTRIBUTES) and not (IsMembership(r) and u == PROV_ATTR_ENTITY.uri),
                          vs_n(qm_get(r._attributes, u)) <= 1), "str")


@spec
def IsMembership(r: "ProvRecord") -> "bool":
    return r._prov_type is not None and r._prov_type.uri == PROV_MEMBERSHIP.uri


@spec
def AllStoredOK(r: "ProvRecord") -> "bool":
    return forall(
        lambda u, c: implies(vs_has(qm_get(r._attributes, u), c), StoredOK(u, vs_rep(qm_get(r._attributes, u), c))),
        "str", "Val")


@spec
def StoredOK(u: "str", v: "Val") -> "bool":
    if uri_in(u, PROV_ATTRIBUTE_QNAMES):
        return is_qn(v) and QNameOK(as_qn(v))
    if uri_in(u, PROV_ATTRIBUTE_LITERALS):
        return is_dt(v)
    return ValueNF(v) and implies(is_qn(v), QNameOK(as_qn(v)))


@spec
def RawPairOK(name: "Val", value: "Val") -> "bool":
    """what the property's inputs look like: attribute names are qualified names or text, values are
    scalars, library values or records (no containers)"""
    return ((is_qn(name) and QNameOK(as_qn(name))) or is_str(name)) and not is_other(value) \
        and implies(is_qn(value), QNameOK(as_qn(value))) \
        and implies(is_ident(value), contains(as_ident(value).uri, ":")) \
        and implies(is_ref(value), isinst(value, "ProvRecord") and IdOK(as_ref(value, "ProvRecord")))


@spec
def PairOK(name: "Val", value: "Val") -> "bool":
    # an input pair, or a pair taken from a record in normal form (NormalPair is opaque outside add_attributes)
    return NormalPair(pair(name, value)) or RawPairOK(name, value)


@spec
def ArgsOK(attributes: "Seq[Tup[Val,Val]]") -> "bool":
    return forall_in(attributes, lambda p: PairOK(p[0], p[1]))


@opaque_spec
def NormalPair(p: "Tup[Val,Val]") -> "bool":
    """a (name, value) pair as a record in normal form stores it: a QualifiedName and either nothing or a
    value of the right kind for that name.  Opaque: only the units that need its definition reveal it."""
    if not (is_qn(p[0]) and QNameOK(as_qn(p[0]))):
        return False
    if is_none(p[1]):
        return True
    if uri_in(as_qn(p[0]).uri, PROV_ATTRIBUTE_QNAMES):
        return is_qn(p[1]) and QNameOK(as_qn(p[1]))
    if uri_in(as_qn(p[0]).uri, PROV_ATTRIBUTE_LITERALS):
        return is_dt(p[1])
    return ValueNF(p[1]) and implies(is_qn(p[1]), QNameOK(as_qn(p[1])))


@spec
def PairU(p: "Tup[Val,Val]") -> "str":
    return as_qn(p[0]).uri


@spec
def PairC(p: "Tup[Val,Val]") -> "Val":
    return ck(p[1])


@spec
def AllNormal(attributes: "Seq[Tup[Val,Val]]") -> "bool":
    return forall_in(attributes, lambda p: NormalPair(p))


@spec
def GivenAreStored(r: "ProvRecord", attributes: "Seq[Tup[Val,Val]]", upto: "int") -> "bool":
    """every normal pair among the first `upto` ones whose value is not None is now stored (under the name's
    URI, by the value's key)"""
    return forall(lambda j: implies(0 <= j and j < upto and NormalPair(seq_nth(attributes, j)) and not is_none(seq_nth(attributes, j)[1]),
                                    vs_has(qm_get(r._attributes, PairU(seq_nth(attributes, j))), PairC(seq_nth(attributes, j)))), "int")


@spec
def OnlyGivenAreStored(r: "ProvRecord", attributes: "Seq[Tup[Val,Val]]", upto: "int") -> "bool":
    """nothing else was stored: every stored pair was there before or comes from one of the first `upto` pairs"""
    return forall(lambda u, c: implies(vs_has(qm_get(r._attributes, u), c),
                                       old(vs_has(qm_get(r._attributes, u), c))
                                       or exists(lambda j: 0 <= j and j < upto and PairU(seq_nth(attributes, j)) == u
                                                 and same(PairC(seq_nth(attributes, j)), c), "int")),
                  "str", "Val")


@spec
def GivenAreStoredM(r: "ProvRecord", attributes: "Seq[Tup[Val,Val]]") -> "bool":
    """membership form: every normal pair of the list whose value is not None is stored"""
    return forall(lambda p: implies(seq_has(attributes, p) and NormalPair(p) and not is_none(p[1]),
                                    vs_has(qm_get(r._attributes, PairU(p)), PairC(p))), "Tup[Val,Val]")


@spec
def OnlyGivenM(r: "ProvRecord", attributes: "Seq[Tup[Val,Val]]") -> "bool":
    """membership form: every stored pair was there before or is one of the list's pairs"""
    return forall(lambda u, c: implies(vs_has(qm_get(r._attributes, u), c),
                                       old(vs_has(qm_get(r._attributes, u), c))
                                       or exists(lambda p: seq_has(attributes, p) and PairU(p) == u and same(PairC(p), c), "Tup[Val,Val]")),
                  "str", "Val")


@spec
def InOpt(L: "Opt[Seq[Tup[Val,Val]]]", p: "Tup[Val,Val]") -> "bool":
    return L is not None and seq_has(the(L), p)


@spec
def AllNormalOpt(L: "Opt[Seq[Tup[Val,Val]]]") -> "bool":
    return L is None or AllNormal(the(L))


@spec
def StoredFrom(r: "ProvRecord", L1: "Opt[Seq[Tup[Val,Val]]]", L2: "Opt[Seq[Tup[Val,Val]]]") -> "bool":
    """every normal pair of the given lists whose value is not None is stored in r"""
    return forall(lambda p: implies((InOpt(L1, p) or InOpt(L2, p)) and NormalPair(p) and not is_none(p[1]),
                                    vs_has(qm_get(r._attributes, PairU(p)), PairC(p))), "Tup[Val,Val]")


@spec
def OnlyFrom(r: "ProvRecord", L1: "Opt[Seq[Tup[Val,Val]]]", L2: "Opt[Seq[Tup[Val,Val]]]") -> "bool":
    """r stores nothing but pairs of the given lists"""
    return forall(lambda u, c: implies(vs_has(qm_get(r._attributes, u), c),
                                       exists(lambda p: (InOpt(L1, p) or InOpt(L2, p)) and PairU(p) == u and same(PairC(p), c), "Tup[Val,Val]")),
                  "str", "Val")


@spec
def OthersUntouched(r: "ProvRecord") -> "bool":
    return forall(lambda x: implies(x != r, same(x._attributes, old(x._attributes))), "ProvRecord")


@spec
def NothingLost(r: "ProvRecord") -> "bool":
    return forall(lambda u, c: implies(old(vs_has(qm_get(r._attributes, u), c)), vs_has(qm_get(r._attributes, u), c)
                                       and same(vs_rep(qm_get(r._attributes, u), c), old(vs_rep(qm_get(r._attributes, u), c)))), "str", "Val")


@spec
def BundleOK(r: "ProvRecord") -> "bool":
    return r._bundle is not None and NSM_Inv(r._bundle._namespaces)


@contract("prov.model.ProvRecord.add_attributes", props=["C05", "C08", "C09"])
def add_attributes(self: "ProvRecord", attributes: "Seq[Tup[Val,Val]]") -> "none":
    note("the dict form is converted by `attributes = attributes.items()` in the first statement of the body; "
         "the contract is stated for the pair-list form")
    requires("nf", NF(self))
    requires("bundle", BundleOK(self))
    requires("args", ArgsOK(attributes))
    uses("prov.model.NamespaceManager.valid_qualified_name", "qn-uri-kept", "no-rebind", "inv", "result-namespace-ok",
         "result-prefix-well-formed", "none-for-other-kinds", "none-for-none", "parent-unchanged")
    uses("prov.model.ProvRecord._auto_literal_conversion", "normalised", "qualified-name-ok", "namespaces-inv",
         "text-unchanged", "qualified-name-same-uri", "typed-literal-becomes-native", "tagged-literal-unchanged", "native-unchanged")
    modifies(self, "_attributes")
    modifies(self._bundle._namespaces, "<dict>", "_namespaces", "_uri_map", "_rename_map", "_prefix_renamed_map", "_default")
    reveal("NormalPair")
    assert_at("self._attributes[attr].add(value)", "stores-the-given-pair",
              implies(NormalPair(pair(attr_name, original_value)),
                      attr.uri == as_qn(attr_name).uri and same(ck(value), ck(original_value))))
    assert_at("self._attributes[attr].add(value)", "value-storable", StoredOK(attr.uri, value))
    assert_at("continue", "same-value-already-stored",
              implies(NormalPair(pair(attr_name, original_value)) and not is_none(original_value),
                      vs_has(qm_get(self._attributes, as_qn(attr_name).uri), ck(original_value))))
    invariant("L1", "attrs-wf", AttrsKeysWF(self))
    invariant("L1", "attrs-wf-representatives", AttrsRepsWF(self))
    invariant("L1", "attrs-wf-sizes", AttrsSizeWF(self))
    invariant("L1", "formal-single", FormalSingle(self))
    invariant("L1", "stored-ok", AllStoredOK(self))
    invariant("L1", "keys-ok", KeysOK(self))
    invariant("L1", "namespaces-inv", NSM_Inv(self._bundle._namespaces))
    invariant("L1", "namespaces-no-rebind", NoRebind(self._bundle._namespaces))
    invariant("L1", "nothing-lost", NothingLost(self))
    invariant("L1", "others-untouched", OthersUntouched(self))
    invariant("L1", "bundle-kept", same(self._bundle, old(self._bundle)) and same(self._identifier, old(self._identifier)))
    invariant("L1", "given-are-stored", GivenAreStored(self, attributes, _i))
    invariant("L1", "only-given-are-stored", implies(AllNormal(attributes), OnlyGivenAreStored(self, attributes, _i)))
    raises(ProvException, ensures=NF(self) and NothingLost(self) and OthersUntouched(self))
    raises(ValueError, ensures=NF(self) and NothingLost(self) and OthersUntouched(self))
    raises(TypeError, ensures=NF(self) and NothingLost(self) and OthersUntouched(self))
    ensures("nf", NF(self))
    ensures("nothing-lost", NothingLost(self))
    ensures("others-untouched", OthersUntouched(self))
    ensures("namespaces", NSM_Inv(self._bundle._namespaces) and NoRebind(self._bundle._namespaces))
    # content: what a pair list taken from a record in normal form puts into the record (C08, C09, C12)
    ensures("given-are-stored", GivenAreStored(self, attributes, seq_len(attributes)))
    ensures("only-given-are-stored", implies(AllNormal(attributes), OnlyGivenAreStored(self, attributes, seq_len(attributes))))
    axiom("a member of a sequence sits at some index", seq_member_index_lemma(attributes))
    ensures("given-are-stored-m", GivenAreStoredM(self, attributes))
    ensures("only-given-m", implies(AllNormal(attributes), OnlyGivenM(self, attributes)))


# ------------------------------------------------------------------------------ the other writers of _attributes
@contract("prov.model.ProvRecord.add_asserted_type", props=["C05"])
def add_asserted_type(self: "ProvRecord", type_identifier: "QN") -> "none":
    note("stores its argument as given: the contract is stated for the kind of argument every caller in the "
         "package passes (a QualifiedName, e.g. PROV['Revision'])")
    requires("nf", NF(self))
    requires("type-ok", QNameOK(type_identifier))
    modifies(self, "_attributes")
    ensures("attrs-wf", AttrsWF(self))
    ensures("formal-single", FormalSingle(self))
    ensures("stored-ok", AllStoredOK(self))
    ensures("keys-ok", KeysOK(self))
    ensures("formal-single-for-all", forall(lambda r: implies(old(FormalSingle(r)), FormalSingle(r)), "ProvRecord"))
    ensures("stored-ok-for-all", forall(lambda r: implies(old(AllStoredOK(r)), AllStoredOK(r)), "ProvRecord"))
    ensures("keys-ok-for-all", forall(lambda r: implies(old(KeysOK(r)), KeysOK(r)), "ProvRecord"))
    ensures("asserted", vs_has(qm_get(self._attributes, PROV_TYPE.uri), ck(type_identifier)))
    ensures("nothing-lost", NothingLost(self))
    ensures("others-untouched", OthersUntouched(self))


@spec
def TimeArg(v: "Val") -> "bool":
    # the property's inputs for a time: a datetime, ISO text, or nothing
    return is_none(v) or is_dt(v) or (is_str(v) and uf("dt_parse_ok", "bool", as_str(v)))


@contract("prov.model.ProvActivity.set_time", props=["C05"])
def set_time(self: "ProvActivity", startTime: "Val" = None, endTime: "Val" = None) -> "none":
    requires("nf", NF(self))
    requires("times", TimeArg(startTime) and TimeArg(endTime))
    modifies(self, "_attributes")
    ensures("attrs-wf", AttrsWF(self))
    ensures("formal-single", FormalSingle(self))
    ensures("stored-ok", AllStoredOK(self))
    ensures("keys-ok", KeysOK(self))
    ensures("start-set", implies(not is_none(startTime), vs_n(qm_get(self._attributes, PROV_ATTR_STARTTIME.uri)) == 1
                                 and is_dt(vs_first(qm_get(self._attributes, PROV_ATTR_STARTTIME.uri)))))
    ensures("end-set", implies(not is_none(endTime), vs_n(qm_get(self._attributes, PROV_ATTR_ENDTIME.uri)) == 1
                               and is_dt(vs_first(qm_get(self._attributes, PROV_ATTR_ENDTIME.uri)))))
    ensures("others-untouched", OthersUntouched(self))


# ------------------------------------------------------------------------------ construction
@contract("prov.model.ProvRecord.__init__", props=["C05", "C09", "C12"])
def ProvRecord_init(self: "ProvRecord", bundle: "ProvBundle", identifier: "Opt[QN]",
                    attributes: "Opt[Seq[Tup[Val,Val]]]" = None) -> "none":
    requires("bundle", NSM_Inv(bundle._namespaces))
    requires("identifier", identifier is None or QNameOK(identifier))
    requires("args", attributes is None or ArgsOK(attributes))
    modifies(self, "_bundle", "_identifier", "_attributes")
    modifies(bundle._namespaces, "<dict>", "_namespaces", "_uri_map", "_rename_map", "_prefix_renamed_map", "_default")
    raises(ProvException)
    raises(ValueError)
    raises(TypeError)
    ensures("fields", same(self._bundle, some(bundle)) and same(self._identifier, identifier))
    ensures("nf", NF(self))
    ensures("others-untouched", OthersUntouched(self))
    ensures("namespaces", NSM_Inv(bundle._namespaces) and NoRebind(bundle._namespaces))
    ensures("given-are-stored", StoredFrom(self, attributes, None))
    ensures("only-given-are-stored", implies(AllNormalOpt(attributes), OnlyFrom(self, attributes, None)))


@contract("prov.model.ProvElement.__init__", props=["C05", "C09", "C12"])
def ProvElement_init(self: "ProvElement", bundle: "ProvBundle", identifier: "Opt[QN]",
                     attributes: "Opt[Seq[Tup[Val,Val]]]" = None) -> "none":
    requires("bundle", NSM_Inv(bundle._namespaces))
    requires("identifier", identifier is None or QNameOK(identifier))
    requires("args", attributes is None or ArgsOK(attributes))
    modifies(self, "_bundle", "_identifier", "_attributes")
    modifies(bundle._namespaces, "<dict>", "_namespaces", "_uri_map", "_rename_map", "_prefix_renamed_map", "_default")
    raises(ProvException)
    raises(ValueError)
    raises(TypeError)
    ensures("identified", identifier is not None)
    ensures("fields", same(self._bundle, some(bundle)) and same(self._identifier, identifier))
    ensures("nf", NF(self))
    ensures("others-untouched", OthersUntouched(self))
    ensures("namespaces", NSM_Inv(bundle._namespaces) and NoRebind(bundle._namespaces))
    ensures("given-are-stored", StoredFrom(self, attributes, None))
    ensures("only-given-are-stored", implies(AllNormalOpt(attributes), OnlyFrom(self, attributes, None)))
