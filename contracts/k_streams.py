"""Source / destination kinds agree (C16): ProvDocument.serialize and ProvDocument.deserialize over ghost streams.

A stream (Handle) has a ghost name (FdName of its descriptor, as in j_io.py) and what it holds is the ghost file
system's entry under that name; an io.StringIO is a stream under a name nothing else has.  Everything outside the
package is an ASSUMED contract (trusted(...)): io.StringIO, stream.getvalue, the registry, and the four serializers'
serialize / deserialize methods.  WHAT text a serializer writes and WHAT document a text denotes are uninterpreted
functions of (format, document) and (format, text): the contracts below prove that the dispatch code hands the same
text to / takes the same text from every kind of destination / source, not what the text is (C01/C02/C06/C07)."""


@spec
def StreamName(h: "Handle") -> "str":
    return FdName(uf("handle_fd", "int", h))


@spec
def SerText(format_tag: "str", document: "ProvDocument") -> "str":
    """the text the serializer of that format writes for that document (uninterpreted; assumed to depend on nothing else)"""
    return uf("ser_text", "str", format_tag, document)


@spec
def Parsed(format_tag: "str", text: "str") -> "int":
    """the content of the document the reader of that format builds from that text (uninterpreted token)"""
    return uf("parsed_content", "int", format_tag, text)


@spec
def ContentOf(document: "ProvDocument") -> "int":
    return uf("doc_content", "int", document)


@spec
def KnownFormat(format: "str") -> "bool":
    return format == "json" or format == "xml" or format == "rdf" or format == "provn"


@contract("ext:io.StringIO")
def StringIO(initial_value: "str" = "") -> "Handle":
    trusted("io.StringIO(s) is a new in-memory text stream that holds s and is positioned at its start; in the ghost "
            "file system it lives under a name nothing had before")
    modifies_fs()
    ensures("new-stream", old(fs_get(StreamName(result))) is None and same(fs_get(StreamName(result)), some(initial_value)))
    ensures("nothing-else", forall(lambda p: implies(p != StreamName(result), same(fs_get(p), old(fs_get(p)))), "str"))


@contract("ext:stream.getvalue")
def stream_getvalue(stream: "Handle") -> "str":
    trusted("getvalue() of an in-memory stream returns everything written to it")
    pure()
    ensures("value", same(fs_get(StreamName(stream)), some(result)))


# ---------------------------------------------------------------------------------------------- assumed: the four readers
@contract("prov.serializers.provjson.ProvJSONSerializer.deserialize")
def json_deserialize(self: "ProvJSONSerializer", stream: "Handle") -> "ProvDocument":
    trusted("reads the stream it is given (all of it) and builds a new document from that text alone")
    allocates("ProvDocument")
    raises(Exception)
    ensures("reads-the-stream", implies(fs_get(StreamName(stream)) is not None,
                                        ContentOf(result) == Parsed("json", the(fs_get(StreamName(stream))))))


@contract("prov.serializers.provxml.ProvXMLSerializer.deserialize")
def xml_deserialize(self: "ProvXMLSerializer", stream: "Handle") -> "ProvDocument":
    trusted("reads the stream it is given (all of it) and builds a new document from that text alone")
    allocates("ProvDocument")
    raises(Exception)
    ensures("reads-the-stream", implies(fs_get(StreamName(stream)) is not None,
                                        ContentOf(result) == Parsed("xml", the(fs_get(StreamName(stream))))))


@contract("prov.serializers.provrdf.ProvRDFSerializer.deserialize")
def rdf_deserialize(self: "ProvRDFSerializer", stream: "Handle", rdf_format: "str" = "trig") -> "ProvDocument":
    trusted("reads the stream it is given (all of it) and builds a new document from that text alone")
    allocates("ProvDocument")
    raises(Exception)
    ensures("reads-the-stream", implies(fs_get(StreamName(stream)) is not None,
                                        ContentOf(result) == Parsed("rdf", the(fs_get(StreamName(stream))))))


@contract("prov.serializers.provn.ProvNSerializer.deserialize")
def provn_deserialize(self: "ProvNSerializer", stream: "Handle") -> "ProvDocument":
    trusted("PROV-N cannot be read: always raises NotImplementedError")
    raises(Exception)
    ensures("never-returns", False)


@contract("prov.serializers.Serializer.deserialize")
def abstract_deserialize(self: "Serializer", stream: "Handle") -> "none":
    trusted("the abstract method does nothing")
    pure()


# ---------------------------------------------------------------------------------------------- C16: destinations
@contract("prov.model.ProvDocument.serialize#to-string", props=["C16"])
def serialize_to_string(self: "ProvDocument", destination: "none" = None, format: "str" = "json") -> "str":
    note("no destination: the text is returned. **args is passed on to the serializer unchanged")
    allocates("Serializer")
    modifies_fs()
    raises(Exception)
    ensures("returns-the-serialisation", implies(KnownFormat(format), result == SerText(format, self)))


@contract("prov.model.ProvDocument.serialize#to-stream", props=["C16"])
def serialize_to_stream(self: "ProvDocument", destination: "Handle", format: "str" = "json") -> "none":
    note("destination is a stream (text or binary: the ghost content is the text, i.e. a binary stream is modelled by the "
         "UTF-8 decoding of its bytes; the encoding step itself is inside the serializers and is bounded-only)")
    requires("stream-is-open", fs_get(StreamName(destination)) is not None)
    allocates("Serializer")
    modifies_fs()
    raises(Exception)
    ensures("stream-receives-the-serialisation", implies(KnownFormat(format),
            same(fs_get(StreamName(destination)), some(the(old(fs_get(StreamName(destination)))) + SerText(format, self)))))
    ensures("nothing-else-written", forall(lambda p: implies(p != StreamName(destination), same(fs_get(p), old(fs_get(p)))), "str"))


@contract("prov.model.ProvDocument.serialize#to-path-text", props=["C16", "C17"])
def serialize_to_path_text(self: "ProvDocument", destination: "str", format: "str" = "json") -> "none":
    note("the file-name branch again (its frame and exceptional exits are contract serialize#to-path): the named file "
         "holds exactly the serialisation, the same text the other destination kinds receive")
    requires("destination-is-not-a-temporary-name", not uf("is_mkstemp_name", "bool", DestinationFile(destination)))
    allocates("Serializer")
    modifies_fs()
    raises(Exception)
    ensures("file-holds-the-serialisation", implies(KnownFormat(format) and uf("url_netloc", "str", destination) == "",
            same(fs_get(DestinationFile(destination)), some("" + SerText(format, self)))))


# ---------------------------------------------------------------------------------------------- C16: sources
@contract("prov.model.ProvDocument.deserialize#from-content", props=["C16"])
def deserialize_from_content(source: "none" = None, content: "str" = None, format: "str" = "json") -> "ProvDocument":
    note("content given as str (bytes content is decoded first - bytes are not modelled; bounded battery)")
    allocates("Serializer", "ProvDocument")
    modifies_fs()
    raises(Exception)
    ensures("reads-exactly-the-content", implies(KnownFormat(format), ContentOf(result) == Parsed(format, content)))


@contract("prov.model.ProvDocument.deserialize#from-stream", props=["C16"])
def deserialize_from_stream(source: "Handle", content: "none" = None, format: "str" = "json") -> "ProvDocument":
    note("source is an open stream; the path branch (`with open(source)`) is outside pyvc's subset (bounded battery)")
    requires("stream-is-open", fs_get(StreamName(source)) is not None)
    allocates("Serializer", "ProvDocument")
    modifies_fs()          # ghost only: wrapping the source in another in-memory stream is allowed
    raises(Exception)
    ensures("reads-exactly-the-stream", implies(KnownFormat(format), ContentOf(result) == Parsed(format, the(fs_get(StreamName(source))))))


@contract("ext:stream.read")
def stream_read(stream: "Handle") -> "str":
    trusted("read() without a size returns everything the stream holds (the position is not modelled: taken to be the start)")
    pure()
    ensures("value", same(fs_get(StreamName(stream)), some(result)))


@contract("ext:open")
def builtin_open(file: "str", mode: "str" = "r") -> "Handle":
    trusted("open(name) for reading gives a stream on exactly that file of the ghost file system and changes nothing; "
            "OSError when it cannot be opened. (Text decoding with the locale's encoding is not modelled: the ghost "
            "content of a file is its text.)")
    pure()
    raises(OSError)
    ensures("on-that-file", StreamName(result) == file)


@contract("prov.model.ProvDocument.deserialize#from-path", props=["C16"])
def deserialize_from_path(source: "str", content: "none" = None, format: "str" = "json") -> "ProvDocument":
    note("source is a file name: the file is opened (`with open(source)`) and handed to the reader")
    requires("file-exists", fs_get(source) is not None)
    allocates("Serializer", "ProvDocument")
    raises(Exception)
    ensures("reads-exactly-the-file", implies(KnownFormat(format), ContentOf(result) == Parsed(format, the(fs_get(source)))))
