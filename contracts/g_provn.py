"""PROV-N literal syntax (C06): the string-literal printer against its specification."""


@spec
def Esc(s: "str") -> "str":
    # PROV-N ECHAR escapes of backslash and double quote (backslash first)
    return replace_all(replace_all(s, "\\", "\\\\"), '"', '\\"')


@spec
def NoRawLineBreak(s: "str") -> "bool":
    return not contains(s, "\n") and not contains(s, "\r")


@contract("prov.model._ensure_multiline_string_triple_quoted", props=["C06", "C13"])
def _ensure_multiline_string_triple_quoted(value: "str") -> "str":
    pure()
    note("the choice between the short and the long form is stated on the escaped text, as the code tests it; that "
         "escaping neither adds nor removes line breaks is not proved (replace_all is beyond both solvers)")
    ensures("short-form", implies(NoRawLineBreak(Esc(value)), result == '"' + Esc(value) + '"'))
    ensures("long-form", implies(not NoRawLineBreak(Esc(value)), result == '"""' + Esc(value) + '"""'))
    ensures("delimited", prefixof('"', result) and suffixof('"', result) and strlen(result) >= 2)
    ensures("short-form-has-no-raw-line-break", implies(NoRawLineBreak(Esc(value)), NoRawLineBreak(result)))


@contract("prov.identifier.QualifiedName.provn_representation", props=["C06", "C13"])
def QualifiedName_provn_representation(self: "QN") -> "str":
    pure()
    ensures("quoted-name", result == "'" + qn_str(self) + "'")


@contract("prov.identifier.Identifier.provn_representation", props=["C06", "C13"])
def Identifier_provn_representation(self: "Ident") -> "str":
    pure()
    ensures("typed-uri", result == '"' + self.uri + '" %% xsd:anyURI')


@contract("prov.model.Literal.provn_representation", props=["C06", "C13"])
def Literal_provn_representation(self: "Lit") -> "str":
    pure()
    ensures("language-tagged", implies(self.langtag is not None and self.langtag != "",
                                       result == (('"' + Esc(self.value) + '"') if NoRawLineBreak(Esc(self.value)) else ('"""' + Esc(self.value) + '"""'))
                                       + "@" + the(self.langtag)))


@spec
def Quoted(s: "str") -> "str":
    return ('"' + Esc(s) + '"') if NoRawLineBreak(Esc(s)) else ('"""' + Esc(s) + '"""')


@contract("prov.model.Literal.provn_representation#typed", props=["C06", "C13"])
def Literal_provn_representation_typed(self: "Lit") -> "str":
    pure()
    ensures("typed", implies((self.langtag is None or self.langtag == "") and self.datatype is not None,
                             result == Quoted(self.value) + " %% " + qn_str(the(self.datatype))))


@contract("prov.model.encoding_provn_value", props=["C06", "C13"])
def encoding_provn_value(value: "Val") -> "str":
    pure()
    requires("scalar", is_str(value) or is_int(value) or is_bool(value))
    ensures("string", implies(is_str(value), result == Quoted(as_str(value))))
    ensures("boolean", implies(is_bool(value), result == ('"1" %% xsd:boolean' if as_bool(value) else '"0" %% xsd:boolean')))
    ensures("integer", implies(is_int(value), result == int_str(as_int(value))))
