"""PROV-JSON value level (C01, C10, C11): the typed-literal encoding {"$", "type" | "lang"} and its inverse."""


@contract("prov.serializers.provjson.literal_json_representation", props=["C01", "C10", "C13"])
def literal_json_representation(literal: "Lit") -> "JRep":
    pure()
    ensures("language-tagged", implies(literal.langtag is not None and literal.langtag != "",
                                       same(result, jobj(box(literal.value), None, literal.langtag))))
    ensures("typed", implies((literal.langtag is None or literal.langtag == "") and literal.datatype is not None,
                             same(result, jobj(box(literal.value), some(qn_str(the(literal.datatype))), None))))


@spec
def EncSpec(v: "Val") -> "JRep":
    """the PROV-JSON representation of a stored value (PROV-JSON section 3.2 as the library instantiates it)"""
    if is_str(v) or is_bool(v):
        return jplain(v)
    if is_int(v):
        return jobj(v, some("xsd:int"), None)
    if is_float(v):
        return jobj(v, some("xsd:double"), None)
    if is_ident(v):
        return jobj(box(as_ident(v).uri), some("xsd:anyURI"), None)
    if is_qn(v):
        return jobj(box(qn_str(as_qn(v))), some("prov:QUALIFIED_NAME"), None)
    if is_dt(v):
        return jobj(box(uf("dt_iso", "str", as_dt(v))), some("xsd:dateTime"), None)
    if as_lit(v).langtag is not None and as_lit(v).langtag != "":
        return jobj(box(as_lit(v).value), None, as_lit(v).langtag)
    return jobj(box(as_lit(v).value), some(qn_str(the(as_lit(v).datatype))), None)


@contract("prov.serializers.provjson.encode_json_representation", props=["C01", "C10", "C13"])
def encode_json_representation(value: "Val") -> "JRep":
    pure()
    requires("a-stored-value", not is_other(value) and not is_ref(value) and not is_none(value))
    requires("typed-or-tagged-literal", implies(is_lit(value), as_lit(value).datatype is not None or
                                                (as_lit(value).langtag is not None and as_lit(value).langtag != "")))
    ensures("is-the-specified-encoding", same(result, EncSpec(value)))
    ensures("text", implies(is_str(value), same(result, jplain(value))))
    ensures("boolean", implies(is_bool(value), same(result, jplain(value))))
    ensures("integer", implies(is_int(value), same(result, jobj(value, some("xsd:int"), None))))
    ensures("float", implies(is_float(value), same(result, jobj(value, some("xsd:double"), None))))
    ensures("uri", implies(is_ident(value), same(result, jobj(box(as_ident(value).uri), some("xsd:anyURI"), None))))
    ensures("qualified-name", implies(is_qn(value), same(result, jobj(box(qn_str(as_qn(value))), some("prov:QUALIFIED_NAME"), None))))
    ensures("datetime", implies(is_dt(value), is_jobj(result) and same(j_type(result), some("xsd:dateTime")) and j_lang(result) is None
                                and is_str(j_dollar(result))))
    ensures("tagged-literal", implies(is_lit(value) and as_lit(value).langtag is not None and as_lit(value).langtag != "",
                                      same(result, jobj(box(as_lit(value).value), None, as_lit(value).langtag))))
    ensures("typed-literal", implies(is_lit(value) and (as_lit(value).langtag is None or as_lit(value).langtag == ""),
                                     same(result, jobj(box(as_lit(value).value), some(qn_str(the(as_lit(value).datatype))), None))))


inline("prov.serializers.provjson.valid_qualified_name", "prov.model.ProvBundle.valid_qualified_name")


@spec
def TypeURIOpt(M: "NamespaceManager", j: "JRep") -> "Opt[str]":
    """the URI the "type" text of j denotes in M's own table (None when it is absent or its prefix unknown)"""
    if is_jobj(j) and j_type(j) is not None and Prefixed(the(j_type(j))) and PrefixOf(the(j_type(j))) in M:
        return some(M[PrefixOf(the(j_type(j)))].uri + LocalOf(the(j_type(j))))
    return None


@spec
def DollarNsOpt(M: "NamespaceManager", j: "JRep") -> "Opt[Ns]":
    """the namespace M's own table gives to the prefix of the "$" text of j"""
    if is_jobj(j) and is_str(j_dollar(j)) and Prefixed(as_str(j_dollar(j))) and PrefixOf(as_str(j_dollar(j))) in M:
        return some(M[PrefixOf(as_str(j_dollar(j)))])
    return None


@spec
def DecPost(j: "JRep", r: "Val", tU: "Opt[str]", dNs: "Opt[Ns]") -> "bool":
    """what decoding j yields, given the URI tU its type text denotes and the namespace dNs of its "$" text"""
    if not is_jobj(j):
        return same(r, j_plain(j))
    if j_type(j) is None:
        return implies(j_lang(j) is not None and the(j_lang(j)) != "",
                       is_lit(r) and as_lit(r).value == py_str(j_dollar(j)) and same(as_lit(r).langtag, j_lang(j))
                       and as_lit(r).datatype is not None and as_lit(r).datatype.uri == PROV["InternationalizedString"].uri)
    if tU is None:
        return True
    if the(tU) == XSD_ANYURI.uri:
        return is_ident(r) and as_ident(r).uri == as_str(j_dollar(j))
    if the(tU) == PROV_QUALIFIEDNAME.uri:
        return implies(dNs is not None, is_qn(r) and as_qn(r).uri == the(dNs).uri + LocalOf(as_str(j_dollar(j))))
    return implies(j_lang(j) is None,
                   is_lit(r) and as_lit(r).value == py_str(j_dollar(j)) and as_lit(r).langtag is None
                   and as_lit(r).datatype is not None and as_lit(r).datatype.uri == the(tU))


@spec
def TypeResolvesTo(M: "NamespaceManager", j: "JRep", q: "QN") -> "bool":
    """the "type" text of j is 'prefix:local' with the prefix registered in M's own table, denoting q's URI"""
    return (j_type(j) is not None and Prefixed(the(j_type(j))) and PrefixOf(the(j_type(j))) in M
            and M[PrefixOf(the(j_type(j)))].uri + LocalOf(the(j_type(j))) == q.uri)


@contract("prov.serializers.provjson.decode_json_representation", props=["C01", "C11"])
def decode_json_representation(literal: "JRep", bundle: "ProvBundle") -> "Val":
    requires("namespaces", NSM_Inv(bundle._namespaces))
    requires("object-shape", implies(is_jobj(literal), is_str(j_dollar(literal)) or is_int(j_dollar(literal)) or is_float(j_dollar(literal))
                                     or is_bool(j_dollar(literal))))
    requires("type-text", implies(is_jobj(literal) and j_type(literal) is not None, WellFormedText(box(the(j_type(literal))))))
    requires("uri-and-name-values-are-text", implies(is_jobj(literal) and j_type(literal) is not None, is_str(j_dollar(literal))))
    requires("name-text", implies(is_jobj(literal) and is_str(j_dollar(literal)), WellFormedText(j_dollar(literal))))
    modifies(bundle._namespaces, "<dict>", "_namespaces", "_uri_map", "_rename_map", "_prefix_renamed_map", "_default")
    raises(ProvException)
    raises(ValueError)
    raises(TypeError)
    ensures("decoded", DecPost(literal, result, old(TypeURIOpt(bundle._namespaces, literal)), old(DollarNsOpt(bundle._namespaces, literal))))
    ensures("plain", implies(not is_jobj(literal), same(result, j_plain(literal))))
    ensures("any-uri", implies(is_jobj(literal) and old(TypeResolvesTo(bundle._namespaces, literal, XSD_ANYURI)),
                               is_ident(result) and as_ident(result).uri == as_str(j_dollar(literal))))
    ensures("language-tagged", implies(is_jobj(literal) and j_type(literal) is None and j_lang(literal) is not None and the(j_lang(literal)) != "",
                                       is_lit(result) and as_lit(result).value == py_str(j_dollar(literal))
                                       and same(as_lit(result).langtag, j_lang(literal))))
    ensures("other-datatype", implies(is_jobj(literal) and j_lang(literal) is None and j_type(literal) is not None
                                      and old(Prefixed(the(j_type(literal))) and PrefixOf(the(j_type(literal))) in bundle._namespaces
                                              and bundle._namespaces[PrefixOf(the(j_type(literal)))].uri + LocalOf(the(j_type(literal))) != XSD_ANYURI.uri
                                              and bundle._namespaces[PrefixOf(the(j_type(literal)))].uri + LocalOf(the(j_type(literal))) != PROV_QUALIFIEDNAME.uri),
                                      is_lit(result) and as_lit(result).value == py_str(j_dollar(literal)) and as_lit(result).langtag is None
                                      and as_lit(result).datatype is not None
                                      and as_lit(result).datatype.uri == old(bundle._namespaces[PrefixOf(the(j_type(literal)))].uri + LocalOf(the(j_type(literal))))))


# ---------------------------------------------------------------------------------------------- the round trip
@lemma("split-inverse", props=["C01", "C10", "C11"])
def split_inverse(p: "str", l: "str"):
    """printing 'prefix:local' and splitting at the first colon gives prefix and local back"""
    assume(not contains(p, ":") and p != "" and p != "_")
    prove("prefix", PrefixOf(p + ":" + l) == p)
    prove("local", LocalOf(p + ":" + l) == l)
    prove("prefixed", Prefixed(p + ":" + l))


@spec
def NameAnchored(M: "NamespaceManager", q: "QN") -> "bool":
    """q is printed as 'prefix:local' with a non-empty prefix that M's own table maps to q's namespace"""
    return (q.namespace.prefix != "" and not contains(q.namespace.prefix, ":") and q.namespace.prefix in M
            and same(M[q.namespace.prefix], q.namespace) and qn_str(q) == q.namespace.prefix + ":" + q.localpart
            and q.uri == q.namespace.uri + q.localpart)


@lemma("json-value-round-trip", props=["C01", "C10", "C11"])
def json_value_round_trip(v: "Val", M: "NamespaceManager", r: "Val", n: "int", f: "Flt", d: "DT"):
    """decode(encode(v)) followed by the normalisation on insertion is v again, for every kind of stored value;
    r stands for any result of decode_json_representation on EncSpec(v) (its contract is DecPost)"""
    # v is a stored value in normal form
    assume(not is_other(v) and not is_ref(v) and not is_none(v))
    assume(implies(is_lit(v), as_lit(v).datatype is not None))
    assume(implies(is_lit(v) and as_lit(v).langtag is not None and as_lit(v).langtag != "",
                   the(as_lit(v).datatype).uri == PROV["InternationalizedString"].uri))
    assume(implies(is_lit(v) and as_lit(v).langtag is not None, as_lit(v).langtag != ""))
    # the scope declares xsd and prov, and anchors the names that occur in v (C03: handed-out names resolve)
    assume("xsd" in M and M["xsd"].uri == XSD_STRING.namespace.uri and "prov" in M and M["prov"].uri == PROV["type"].namespace.uri)
    assume(implies(is_qn(v), NameAnchored(M, as_qn(v))))
    assume(implies(is_lit(v), NameAnchored(M, the(as_lit(v).datatype))))
    # A3/A4 (trusted, exercised by the batteries): the parsers invert the printers
    assume(uf("py_int", "int", int_str(n)) == n)
    assume(same(uf("py_float", "Flt", uf("flt_repr", "str", f)), f))
    assume(uf("dt_parse_ok", "bool", uf("dt_iso", "str", d)) and same(uf("dt_parse", "DT", uf("dt_iso", "str", d)), d))
    assume(implies(is_int(v), n == as_int(v)) and implies(is_float(v), same(f, as_float(v))) and implies(is_dt(v), same(d, as_dt(v))))
    # instances of lemma split-inverse (proved above) for the printed names
    assume(implies(is_qn(v), PrefixOf(as_qn(v).namespace.prefix + ":" + as_qn(v).localpart) == as_qn(v).namespace.prefix
                   and LocalOf(as_qn(v).namespace.prefix + ":" + as_qn(v).localpart) == as_qn(v).localpart
                   and Prefixed(as_qn(v).namespace.prefix + ":" + as_qn(v).localpart)))
    assume(implies(is_lit(v), PrefixOf(the(as_lit(v).datatype).namespace.prefix + ":" + the(as_lit(v).datatype).localpart) == the(as_lit(v).datatype).namespace.prefix
                   and LocalOf(the(as_lit(v).datatype).namespace.prefix + ":" + the(as_lit(v).datatype).localpart) == the(as_lit(v).datatype).localpart
                   and Prefixed(the(as_lit(v).datatype).namespace.prefix + ":" + the(as_lit(v).datatype).localpart)))
    assume(PrefixOf("prov:QUALIFIED_NAME") == "prov" and LocalOf("prov:QUALIFIED_NAME") == "QUALIFIED_NAME" and Prefixed("prov:QUALIFIED_NAME"))
    # what the decoder's contract says about its result on the encoding of v
    assume(DecPost(EncSpec(v), r, TypeURIOpt(M, EncSpec(v)), DollarNsOpt(M, EncSpec(v))))
    prove("text-and-booleans", implies(is_str(v) or is_bool(v), same(r, v)))
    prove("integers", implies(is_int(v), is_lit(r) and as_lit(r).langtag is None and as_lit(r).datatype is not None
                              and same(ParsedAs(as_lit(r).value, the(as_lit(r).datatype)), v)))
    prove("floats", implies(is_float(v), is_lit(r) and as_lit(r).langtag is None and as_lit(r).datatype is not None
                            and same(ParsedAs(as_lit(r).value, the(as_lit(r).datatype)), v)))
    prove("datetimes", implies(is_dt(v), is_lit(r) and as_lit(r).langtag is None and as_lit(r).datatype is not None
                               and same(ParsedAs(as_lit(r).value, the(as_lit(r).datatype)), v)))
    prove("uris", implies(is_ident(v), is_ident(r) and as_ident(r).uri == as_ident(v).uri))
    prove("qualified-names", implies(is_qn(v), is_qn(r) and as_qn(r).uri == as_qn(v).uri))
    prove("language-tagged-literals", implies(is_lit(v) and as_lit(v).langtag is not None,
                                              is_lit(r) and as_lit(r).value == as_lit(v).value and same(as_lit(r).langtag, as_lit(v).langtag)
                                              and as_lit(r).datatype is not None and as_lit(r).datatype.uri == the(as_lit(v).datatype).uri))
    prove("typed-literals", implies(is_lit(v) and as_lit(v).langtag is None
                                    and the(as_lit(v).datatype).uri != XSD_ANYURI.uri and the(as_lit(v).datatype).uri != PROV_QUALIFIEDNAME.uri,
                                    is_lit(r) and as_lit(r).value == as_lit(v).value and as_lit(r).langtag is None
                                    and as_lit(r).datatype is not None and as_lit(r).datatype.uri == the(as_lit(v).datatype).uri))
