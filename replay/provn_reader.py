"""Independent PROV-N reader, written from the W3C PROV-N recommendation (grammar productions document, bundle,
namespaceDeclarations, the 18 expression kinds, optionalIdentifier, attribute-value pairs, literal,
STRING_LITERAL2 / STRING_LITERAL_LONG2 with ECHAR, INT_LITERAL, QUALIFIED_NAME_LITERAL, LANGTAG, time).
Shares no code with the library.  Produces the strict content structure of replay/common.py.

It is strict: text outside the grammar raises ProvNSyntaxError (a lone backslash in a string, a raw newline in a
short string, an unknown expression name, a wrong number of arguments, an unbalanced list ...)."""
import re
from collections import Counter

from indep import PROV, XSD, typed, parse_dt, finish, attrs_key, Unresolvable


class ProvNSyntaxError(Exception):
    pass


# expression name -> (PROV-DM type, may have "id;" marker, [formal argument names in order], number of mandatory args)
EXPR = {
    "entity": ("Entity", False, ["#id"], 1),
    "activity": ("Activity", False, ["#id", "startTime", "endTime"], 1),
    "agent": ("Agent", False, ["#id"], 1),
    "wasGeneratedBy": ("Generation", True, ["entity", "activity", "time"], 1),
    "used": ("Usage", True, ["activity", "entity", "time"], 1),
    "wasInformedBy": ("Communication", True, ["informed", "informant"], 2),
    "wasStartedBy": ("Start", True, ["activity", "trigger", "starter", "time"], 1),
    "wasEndedBy": ("End", True, ["activity", "trigger", "ender", "time"], 1),
    "wasInvalidatedBy": ("Invalidation", True, ["entity", "activity", "time"], 1),
    "wasDerivedFrom": ("Derivation", True, ["generatedEntity", "usedEntity", "activity", "generation", "usage"], 2),
    "wasAttributedTo": ("Attribution", True, ["entity", "agent"], 2),
    "wasAssociatedWith": ("Association", True, ["activity", "agent", "plan"], 1),
    "actedOnBehalfOf": ("Delegation", True, ["delegate", "responsible", "activity"], 2),
    "wasInfluencedBy": ("Influence", True, ["influencee", "influencer"], 2),
    "alternateOf": ("Alternate", False, ["alternate1", "alternate2"], 2),
    "specializationOf": ("Specialization", False, ["specificEntity", "generalEntity"], 2),
    "hadMember": ("Membership", False, ["collection", "entity"], 2),
    "mentionOf": ("Mention", False, ["specificEntity", "generalEntity", "bundle"], 3),
}
TIME_ARGS = {"time", "startTime", "endTime"}

PN_CHARS_BASE = r"A-Za-zÀ-ÖØ-öø-˿Ͱ-ͽͿ-῿‌-‍⁰-↏Ⰰ-⿯、-퟿豈-﷏ﷰ-�"
PN_CHARS_U = PN_CHARS_BASE + "_"
PN_CHARS = PN_CHARS_U + r"\-0-9·̀-ͯ‿-⁀"
PN_PREFIX = r"[%s](?:[%s.]*[%s])?" % (PN_CHARS_BASE, PN_CHARS, PN_CHARS)
PN_LOCAL_CH = r"(?:[%s0-9/@~&+*?#$!]|%%[0-9A-Fa-f]{2}|\\[=\'(),\-:;\[\].])" % PN_CHARS_U
PN_LOCAL_MID = r"(?:[%s/@~&+*?#$!.]|%%[0-9A-Fa-f]{2}|\\[=\'(),\-:;\[\].])" % PN_CHARS
PN_LOCAL = r"%s(?:%s*(?:[%s/@~&+*?#$!]|%%[0-9A-Fa-f]{2}|\\[=\'(),\-:;\[\].]))?" % (PN_LOCAL_CH, PN_LOCAL_MID, PN_CHARS)
QNAME = r"(?:(?:%s):)?%s|(?:%s):" % (PN_PREFIX, PN_LOCAL, PN_PREFIX)

TOKEN = re.compile(r"""
    (?P<ws>\s+|//[^\n]*|/\*.*?\*/)
  | (?P<long>\"\"\"(?:(?:\"|\"\")?(?:[^\"\\]|\\[tbnrf\\\"']))*\"\"\")
  | (?P<short>\"(?:[^\"\\\n\r]|\\[tbnrf\\\"'])*\")
  | (?P<iri><[^<>\"{}|^`\\\x00-\x20]*>)
  | (?P<qlit>'(?:%s)')
  | (?P<dt>-?[0-9]{4,}-[0-9]{2}-[0-9]{2}T[0-9]{2}:[0-9]{2}:[0-9]{2}(?:\.[0-9]+)?(?:Z|[+-][0-9]{2}:[0-9]{2})?)
  | (?P<int>-?[0-9]+(?![0-9A-Za-z_:.]))
  | (?P<lang>@[a-zA-Z]+(?:-[a-zA-Z0-9]+)*)
  | (?P<pp>%%%%)
  | (?P<punct>[()\[\],;=\-])
  | (?P<name>%s)
""" % (QNAME, QNAME), re.X | re.S)

ECHAR = {"t": "\t", "b": "\b", "n": "\n", "r": "\r", "f": "\f", "\\": "\\", '"': '"', "'": "'"}


def unescape(body):
    out = []
    i = 0
    while i < len(body):
        c = body[i]
        if c == "\\":
            out.append(ECHAR[body[i + 1]])
            i += 2
        else:
            out.append(c)
            i += 1
    return "".join(out)


def lex_hint(text, pos):
    if text[pos] == '"':
        m = re.match(r'"(?:[^"\\]|\\.)*"', text[pos:], re.S)
        body = m.group(0) if m else text[pos:pos + 200]
        if re.search(r"\\(?![tbnrf\\\"'])", body):
            return "string literal with a backslash that is not an ECHAR escape"
        if "\r" in body or "\n" in body:
            return "short string literal containing a raw line break"
        return "malformed string literal"
    return "unexpected character"


def tokens(text):
    pos = 0
    out = []
    while pos < len(text):
        m = TOKEN.match(text, pos)
        if not m:
            raise ProvNSyntaxError("lexical error: no PROV-N token matches (%s) || offset %d: %r" % (lex_hint(text, pos), pos, text[pos:pos + 40]))
        k = m.lastgroup
        if k != "ws":
            out.append((k, m.group(k)))
        pos = m.end()
    return out


class Parser:
    def __init__(self, text):
        self.t = tokens(text)
        self.i = 0

    def peek(self, k=0):
        return self.t[self.i + k] if self.i + k < len(self.t) else ("eof", "")

    def take(self, kind=None, value=None):
        tk = self.peek()
        if (kind is not None and tk[0] != kind) or (value is not None and tk[1] != value):
            raise ProvNSyntaxError("unexpected token || expected %s %r, found %r (token %d)" % (kind, value, tk, self.i))
        self.i += 1
        return tk

    def document(self):
        self.take("name", "document")
        out = {}
        scope = self.declarations({})
        recs = []
        while self.peek() not in (("name", "bundle"), ("name", "endDocument")):
            recs.append(self.expression([scope]))
        out[""] = finish(recs)
        while self.peek() == ("name", "bundle"):
            self.take()
            bid = self.take("name")[1]
            bscope = self.declarations({})
            brecs = []
            while self.peek() != ("name", "endBundle"):
                brecs.append(self.expression([bscope, scope]))
            self.take()
            # the bundle's identifier is printed before its own declarations: document scope
            out[resolve(bid, [scope])] = finish(brecs)
        self.take("name", "endDocument")
        if self.peek()[0] != "eof":
            raise ProvNSyntaxError("text after endDocument")
        return out

    def declarations(self, scope):
        scope = dict(scope)
        first = True
        while self.peek() in (("name", "default"), ("name", "prefix")) and self.peek(1)[0] in ("iri", "name"):
            kw = self.peek()[1]
            if kw == "default":
                if self.peek(1)[0] != "iri":
                    break
                if not first:
                    raise ProvNSyntaxError("default namespace declaration must come first")
                self.take()
                scope[None] = self.take("iri")[1][1:-1]
            else:
                if self.peek(2)[0] != "iri":
                    break
                self.take()
                p = self.take("name")[1]
                scope[p] = self.take("iri")[1][1:-1]
            first = False
        return scope

    def expression(self, scopes):
        name = self.take("name")[1]
        if name not in EXPR:
            raise ProvNSyntaxError("unknown expression %r" % name)
        typ, marker, formal, mandatory = EXPR[name]
        self.take("punct", "(")
        rid = None
        # optionalIdentifier ::= ( identifierOrMarker ";" )?
        if self.peek(1) == ("punct", ";"):
            if not marker:
                raise ProvNSyntaxError("%s takes no 'id;' part" % name)
            tk = self.take()
            if tk == ("punct", "-"):
                rid = None
            elif tk[0] == "name":
                rid = resolve(tk[1], scopes)
            else:
                raise ProvNSyntaxError("bad identifier %r" % (tk,))
            self.take("punct", ";")
        args = []
        attrs = None
        while True:
            tk = self.peek()
            if tk == ("punct", "["):
                attrs = self.attributes(scopes)
                break
            if tk == ("punct", "-"):
                self.take()
                args.append(None)
            elif tk[0] == "dt":
                self.take()
                args.append(("time", tk[1]))
            elif tk[0] == "name":
                self.take()
                args.append(("name", tk[1]))
            else:
                raise ProvNSyntaxError("unexpected token in the arguments of %s || %r" % (name, tk))
            if self.peek() == ("punct", ","):
                self.take()
                continue
            break
        self.take("punct", ")")
        if len(args) < mandatory or len(args) > len(formal):
            raise ProvNSyntaxError("%s with %d arguments" % (name, len(args)))
        pairs = []
        for an, av in zip(formal, args):
            if an == "#id":
                if av is None or av[0] != "name":
                    raise ProvNSyntaxError("%s needs an identifier" % name)
                rid = resolve(av[1], scopes)
                continue
            if av is None:
                continue
            if an in TIME_ARGS:
                if av[0] != "time":
                    raise ProvNSyntaxError("%s: %s must be a time, found %r" % (name, an, av))
                pairs.append((PROV + an, parse_dt(av[1])))
            else:
                if av[0] != "name":
                    raise ProvNSyntaxError("%s: %s must be an identifier, found %r" % (name, an, av))
                pairs.append((PROV + an, ("QualifiedName", resolve(av[1], scopes))))
        pairs.extend(attrs or [])
        return (PROV + typ, rid, attrs_key(pairs))

    def attributes(self, scopes):
        self.take("punct", "[")
        out = []
        if self.peek() == ("punct", "]"):
            self.take()
            return out
        while True:
            an = resolve(self.take("name")[1], scopes)
            self.take("punct", "=")
            out.append((an, self.literal(scopes)))
            if self.peek() == ("punct", ","):
                self.take()
                continue
            break
        self.take("punct", "]")
        return out

    def literal(self, scopes):
        tk = self.take()
        if tk[0] == "int":
            return ("int", int(tk[1]))
        if tk[0] == "qlit":
            return ("QualifiedName", resolve(tk[1][1:-1], scopes))
        if tk[0] in ("short", "long"):
            body = tk[1][1:-1] if tk[0] == "short" else tk[1][3:-3]
            s = unescape(body)
            nxt = self.peek()
            if nxt[0] == "pp":
                self.take()
                dt = resolve(self.take("name")[1], scopes)
                return typed(s, dt, lambda n: resolve(n, scopes))
            if nxt[0] == "lang":
                self.take()
                return ("Literal", s, PROV + "InternationalizedString", nxt[1][1:])
            return ("str", s)
        raise ProvNSyntaxError("not a literal: %r" % (tk,))


def resolve(name, scopes):
    name = re.sub(r"\\(.)", r"\1", name)
    if ":" in name:
        p, local = name.split(":", 1)
        for s in scopes:
            if p in s:
                return s[p] + local
        if p == "prov":
            return PROV + local
        if p == "xsd":
            return XSD + local
        raise Unresolvable('the name "%s" uses a prefix that is not declared in scope' % name)
    for s in scopes:
        if None in s:
            return s[None] + name
    raise Unresolvable('the name "%s" has no prefix and no default namespace is declared' % name)


def read_provn(text):
    return Parser(text).document()
