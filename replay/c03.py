#!/usr/bin/env python
"""Native replay / small-scope search for C03 (runs under the repository's interpreter against the
real prov package).  This is the *replay* step of the contract check: it turns a failed obligation
into a concrete failing history when one exists in the scope below.  It never counts as proof.

Scope: histories of <= N operations on a document manager D and a bundle manager B (child of D),
operations add_namespace / set_default_namespace / valid_qualified_name with arguments from small
alphabets chosen to hit clashing prefixes, equal URIs under different prefixes, generated-looking
prefixes (ex_1, dn), URIs that are prefixes of each other, full-URI text and bare local names.
Usage discipline of the property: a scope's default namespace is never re-bound to another URI.
"""
import argparse
import itertools
import json
import random
import sys

from prov.model import ProvDocument, NamespaceManager
from prov.identifier import Namespace, QualifiedName, Identifier

PREFIXES = ["ex", "ex_1", "dn", "foo", "xsd"]
URIS = ["http://a/", "http://a/b/", "http://c/"]
LOCALS = ["x", "b/y"]


def op_space():
    ops = []
    for p in PREFIXES:
        for u in URIS:
            ops.append(("add", p, u))
    for u in URIS[:2]:
        ops.append(("default", u))
    for p in PREFIXES[:2] + [""]:
        for u in URIS:
            ops.append(("vqn-qn", p, u, LOCALS[0]))
    for p in PREFIXES:
        ops.append(("vqn-text", p + ":" + LOCALS[0]))
    ops.append(("vqn-text", LOCALS[0]))
    for u in URIS:
        ops.append(("vqn-text", u + LOCALS[0]))
        ops.append(("vqn-uri", u + u + "x"))
        ops.append(("vqn-uri", u + "n:x"))
    return ops


def run_history(hist):
    """returns list of (clause, description) violations"""
    doc = ProvDocument()
    bun = doc.bundle("prov:bundle1")
    mgr = {"D": doc._namespaces, "B": bun._namespaces}
    handed = {"D": [], "B": []}
    default_uri = {"D": None, "B": None}
    out = []
    for who, op in hist:
        m = mgr[who]
        before = {p: (ns.prefix, ns.uri) for p, ns in m.items() if p != ""}
        try:
            if op[0] == "add":
                r = m.add_namespace(Namespace(op[1], op[2]))
                if r.uri != op[2]:
                    out.append(("uri-kept", "add_namespace changed the URI"))
            elif op[0] == "default":
                cur = m.get_default_namespace()
                if cur is not None and cur.uri != op[1]:
                    continue  # discipline
                m.set_default_namespace(op[1])
            elif op[0] == "vqn-qn":
                q = QualifiedName(Namespace(op[1], op[2]), op[3])
                cur = m.get_default_namespace()
                r = m.valid_qualified_name(q)
                if r is None or r.uri != q.uri:
                    out.append(("qn-uri-kept", "QualifiedName %r resolved to %r" % (q.uri, r and r.uri)))
                if r is not None:
                    handed[who].append(r)
            else:
                text = op[1]
                arg = Identifier(text) if op[0] == "vqn-uri" and False else text
                r = m.valid_qualified_name(arg)
                if r is not None:
                    handed[who].append(r)
                    if "://" in text and r.uri != text:
                        out.append(("compaction-keeps-uri", "full URI %r resolved to %r" % (text, r.uri)))
        except Exception as e:  # noqa
            out.append(("no-unexpected-exception", "%s raised %r" % (op, e)))
            continue
        after = {p: (ns.prefix, ns.uri) for p, ns in m.items() if p != ""}
        for p, v in before.items():
            if after.get(p) != v:
                out.append(("no-rebind", "prefix %s re-pointed from %s to %s" % (p, v, after.get(p))))
        # (c) every handed-out name of both managers still resolves to its URI
        for w in ("D", "B"):
            for q in handed[w]:
                if q.namespace.prefix == "" and (":" in q.localpart or q.localpart == ""):
                    wf = False
                else:
                    wf = True
                r2 = mgr[w].valid_qualified_name(str(q))
                if r2 is None or r2.uri != q.uri:
                    clause = "handed-still-resolve" if wf else "result-well-formed[KF-C03-compaction-into-default]"
                    out.append((clause, "%s handed out %s <%s>; its text now resolves to %r"
                                % (w, str(q), q.uri, r2 and r2.uri)))
                elif r2 is not None:
                    pass
        if out:
            break
    return out


def search(tier, seed):
    rnd = random.Random(seed)
    ops = op_space()
    whos = ["D", "B"]
    steps = [(w, o) for w in whos for o in ops]
    n = 3
    budget = 40000 if tier == "quick" else 400000
    failures = {}
    evaluations = 0
    seen = set()
    # exhaustive for length <= 2, sampled for length 3 (quick) / 3-4 (thorough)
    pools = [itertools.product(steps, repeat=1), itertools.product(steps, repeat=2)]
    for pool in pools:
        for hist in pool:
            evaluations += 1
            seen.add(hist)
            v = run_history(hist)
            if v:
                record(failures, hist, v)
    # exhaustive family over a tiny alphabet (2 prefixes, 2 URIs, one local name) on one manager, length <= 5:
    # alias prefixes, re-registration after resolution, QualifiedName vs text forms of the same name
    tiny = []
    for p in ("ex", "foo"):
        for u in URIS[:1] + URIS[2:]:
            tiny.append(("add", p, u))
            tiny.append(("vqn-qn", p, u, "x"))
        tiny.append(("vqn-text", p + ":x"))
    for who in (["D"] if tier == "quick" else ["D", "B"]):
        for L in (3, 4, 5):
            for seq in itertools.product(tiny, repeat=L):
                hist = tuple((who, o) for o in seq)
                evaluations += 1
                v = run_history(hist)
                if v:
                    record(failures, hist, v)
    budget += evaluations
    lengths = [3] if tier == "quick" else [3, 4]
    while evaluations < budget:
        L = rnd.choice(lengths)
        hist = tuple(rnd.choice(steps) for _ in range(L))
        if hist in seen:
            continue
        seen.add(hist)
        evaluations += 1
        v = run_history(hist)
        if v:
            record(failures, hist, v)
    return evaluations, len(seen), failures


def key_of(hist, clause):
    kinds = "+".join("%s.%s" % (w, o[0]) for w, o in hist)
    return "%s|%s" % (clause, kinds)


def record(failures, hist, viols):
    clause = viols[0][0]
    k = key_of(hist, clause)
    if k not in failures or len(hist) < len(failures[k]["history"]):
        failures[k] = {"key": k, "kf": (clause.split("[")[1][:-1] if "[" in clause else None), "clauses": sorted({c for c, _ in viols}), "history": [list(map(list, [[w], list(o)])) for w, o in hist],
                       "what": viols[0][1]}


def main():
    ap = argparse.ArgumentParser()
    ap.add_argument("--search", action="store_true")
    ap.add_argument("--replay")
    ap.add_argument("--tier", default="quick")
    ap.add_argument("--seed", type=int, default=0)
    ap.add_argument("--out")
    a = ap.parse_args()
    if a.replay:
        info = json.load(open(a.replay))
        print("obligation:", info.get("obligation"))
        bad = 0
        for f in info.get("native_failing_inputs", []):
            hist = tuple((h[0][0], tuple(h[1])) for h in f["history"])
            v = run_history(hist)
            print("history", hist, "->", v if v else "holds")
            bad += bool(v)
        if not info.get("native_failing_inputs"):
            print("no native failing input recorded; solver output:")
            for p in info.get("paths", []):
                print(" ", p["name"], p["status"], p.get("tried"))
        return 1 if bad else 0
    ev, distinct, failures = search(a.tier, a.seed)
    # keep one shortest history per (clause) so that reports stay small
    by_clause = {}
    for f in failures.values():
        c = f["clauses"][0]
        if c not in by_clause or len(f["history"]) < len(by_clause[c]["history"]):
            by_clause[c] = f
    res = {"evaluations": ev, "distinct": distinct,
           "rule": "histories of 1..4 namespace operations on a document and a child bundle manager; "
                   "exhaustive up to length 2 over %d steps, seeded sampling above" % (2 * len(op_space())),
           "failures_found": len(failures), "failures": list(by_clause.values())}
    if a.out:
        json.dump(res, open(a.out, "w"), indent=1)
    print("C03 native battery: %d histories, %d failing shapes" % (ev, len(failures)))
    for f in by_clause.values():
        print("  ", f["clauses"], f["what"], f["history"])
    return 1 if failures else 0


if __name__ == "__main__":
    sys.exit(main())
