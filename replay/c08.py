#!/usr/bin/env python
"""Native replay / small-scope search for C08 (unified() merges exactly the records sharing an identifier).
Bounded stand-in for the grouping loop of ProvBundle._unified_records (not proof).

Scope: documents built from a pool of record makers (same identifier on 1..4 records of one kind with
overlapping / disjoint / conflicting attributes, the same identifier on an entity and an agent, on two relation
kinds, anonymous relations, the same URI reached through two prefixes), all subsets of size <= 4 in insertion
order (quick) or <= 5 (thorough), each at document level and inside a bundle.  Oracle: a reference
unification written from the property statement (group by (identifier URI, kind), union of attribute pairs,
first-occurrence order, conflict on a single-valued formal attribute => ProvException)."""
import argparse
import datetime
import itertools
import json
import sys
from collections import Counter, OrderedDict

from prov.model import ProvDocument, ProvException, Literal
from prov.identifier import Identifier, QualifiedName, Namespace
from prov.constants import PROV_ATTRIBUTES, PROV_ENTITY, PROV_MEMBERSHIP

T1 = datetime.datetime(2020, 1, 1, 10, 0, 0)
T2 = datetime.datetime(2020, 1, 1, 11, 0, 0)
EX = Namespace("ex", "http://ex/")
ALT = Namespace("alt", "http://ex/")        # the same URI space under another prefix


def vkey(v):
    if isinstance(v, Literal):
        return ("lit", v.value, v.datatype.uri if v.datatype is not None else None, v.langtag)
    if isinstance(v, QualifiedName):
        return ("qn", v.uri)
    if isinstance(v, Identifier):
        return ("uri", v.uri)
    if isinstance(v, datetime.datetime):
        return ("dt", v.isoformat())
    return (type(v).__name__, v)


def pairs(r):
    return frozenset((a.uri, vkey(v)) for a, v in r.attributes)


def rkey(r):
    return (r.get_type().uri, r.identifier.uri if r.identifier is not None else None, pairs(r))


MAKERS = OrderedDict([
    ("e1{a=1}", lambda b: b.entity("ex:e1", {"ex:a": 1})),
    ("e1{a=1,b=2}", lambda b: b.entity("ex:e1", {"ex:a": 1, "ex:b": 2})),
    ("e1{c=x}", lambda b: b.entity("ex:e1", {"ex:c": "x"})),
    ("e1{a=5}", lambda b: b.entity("ex:e1", {"ex:a": 5})),                 # same attribute, another value
    ("a1{k=2}", lambda b: b.activity("ex:a1", None, None, {"ex:k": 2})),
    ("e1-via-alt{d=4}", lambda b: b.entity(ALT["e1"], {"ex:d": 4})),
    ("agent-e1{g=1}", lambda b: b.agent("ex:e1", {"ex:g": 1})),
    ("a1[T1,-]", lambda b: b.activity("ex:a1", T1, None, {"ex:k": 1})),
    ("a1[-,T2]", lambda b: b.activity("ex:a1", None, T2)),
    ("a1[T2,-]", lambda b: b.activity("ex:a1", T2, None)),            # conflicts with a1[T1,-]
    ("gen-g1(e1,a1)", lambda b: b.generation("ex:e1", "ex:a1", identifier="ex:g1")),
    ("gen-g1(e1,a1,T1){r=1}", lambda b: b.generation("ex:e1", "ex:a1", T1, identifier="ex:g1", other_attributes={"ex:r": 1})),
    ("use-g1(a1,e1)", lambda b: b.usage("ex:a1", "ex:e1", identifier="ex:g1")),   # another relation kind, same identifier
    ("gen-anon(e1,a1)", lambda b: b.generation("ex:e1", "ex:a1")),
    ("e2", lambda b: b.entity("ex:e2")),
])


def reference(records):
    """-> list of (type uri, id uri, pairs) in first-occurrence order, or 'conflict'"""
    groups = OrderedDict()
    out = []
    for r in records:
        if r.identifier is None:
            out.append([r.get_type().uri, None, set(pairs(r))])
            continue
        k = (r.identifier.uri, r.get_type().uri)
        if k not in groups:
            groups[k] = [r.get_type().uri, r.identifier.uri, set()]
            out.append(groups[k])
        groups[k][2] |= pairs(r)
    formal = {a.uri for a in PROV_ATTRIBUTES}
    for t, i, ps in out:
        c = Counter(u for u, _ in ps if u in formal)
        for u, n_ in c.items():
            if n_ > 1 and not (t == PROV_MEMBERSHIP.uri and u == PROV_ENTITY.uri):
                return "conflict"
    return [(t, i, frozenset(ps)) for t, i, ps in out]


def snapshot(d):
    return ([rkey(r) for r in d.get_records()], {b.identifier.uri: [rkey(r) for r in b.get_records()] for b in d.bundles},
            sorted((n.prefix, n.uri) for n in d.namespaces), [sorted((n.prefix, n.uri) for n in b.namespaces) for b in d.bundles])


def run_case(names, in_bundle):
    d = ProvDocument()
    d.add_namespace(EX)
    d.add_namespace(ALT)
    target = d.bundle("ex:bundle1") if in_bundle else d
    if in_bundle:
        d.entity("ex:e1", {"ex:top": 1})          # same identifier outside the bundle: must not be merged across
    for nm in names:
        MAKERS[nm](target)
    before = snapshot(d)
    want = reference(list(target.get_records()))
    v = []
    try:
        u = d.unified()
    except ProvException:
        if want != "conflict":
            v.append(("raises-only-on-conflict", "unified() raised ProvException without a conflicting formal attribute"))
        u = None
    if u is not None:
        if want == "conflict":
            v.append(("conflict-detected", "unified() returned although two records disagree on a single-valued formal attribute"))
        else:
            ut = list(u.bundles)[0] if in_bundle else u
            if in_bundle and [b.identifier.uri for b in u.bundles] != ["http://ex/bundle1"]:
                v.append(("bundles-kept", "bundle identifiers of the result: %s" % [b.identifier.uri for b in u.bundles]))
            got = [rkey(r) for r in ut.get_records()]
            if Counter(got) != Counter(want):
                kinds_before = {(i, t) for t, i, _ in want}
                kinds_after = {(i, t) for t, i, _ in got}
                if kinds_before - kinds_after:
                    v.append(("no-kind-disappears", "record kind lost for %s" % sorted(kinds_before - kinds_after)[:2]))
                else:
                    v.append(("merged-content", "unified records differ from the reference: got %d, want %d" % (len(got), len(want))))
            elif got != want:
                v.append(("first-occurrence-order", "order of unified records differs from first-occurrence order"))
            if in_bundle and [rkey(r) for r in u.get_records()] != before[0]:
                v.append(("per-bundle", "document-level records changed by unifying a bundle"))
            # idempotent
            try:
                u2 = u.unified()
                if snapshot(u2)[:2] != snapshot(u)[:2]:
                    v.append(("idempotent", "unified(unified(d)) differs from unified(d)"))
            except ProvException:
                v.append(("idempotent", "unified(unified(d)) raised"))
    after = snapshot(d)
    if after[:2] != before[:2]:
        v.append(("source-unchanged", "unified() changed the records of its source"))
    if after[2:] != before[2:]:
        v.append(("source-namespaces-unchanged", "unified() changed the namespace declarations of its source"))
    return v


def main():
    ap = argparse.ArgumentParser()
    ap.add_argument("--search", action="store_true")
    ap.add_argument("--replay")
    ap.add_argument("--tier", default="quick")
    ap.add_argument("--seed", type=int, default=0)
    ap.add_argument("--out")
    a = ap.parse_args()
    maxk = 4 if a.tier == "thorough" else 3
    failures = {}
    n = 0
    names = list(MAKERS)
    samples = []
    for k in range(1, maxk + 1):
        for combo in itertools.permutations(names, k) if k <= 3 else itertools.combinations(names, k):
            for in_bundle in (False, True):
                n += 1
                key = "%s%s" % ("bundle:" if in_bundle else "doc:", "+".join(combo))
                if len(samples) < 3 and k == 3:
                    samples.append(key)
                try:
                    v = run_case(combo, in_bundle)
                except Exception as e:  # noqa
                    v = [("no-unexpected-exception", "%s raised %r" % (key, e))]
                for clause, what in v:
                    kf = None
                    if clause == "no-kind-disappears" or (clause in ("merged-content", "raises-only-on-conflict") and _cross_kind(combo)):
                        kf = "KF-C08-cross-kind-merge"
                    fk = (clause, kf)
                    failures.setdefault(fk, {"key": "%s|%s" % (clause, kf), "kf": kf, "clauses": [clause], "what": "%s [%s]" % (what, key), "history": [key]})
    if a.replay:
        info = json.load(open(a.replay))
        print("obligation:", info.get("obligation"))
        for f in failures.values():
            print("still failing:", f["what"])
        return 1 if [f for f in failures.values() if not f["kf"]] else 0
    res = {"evaluations": n, "distinct": n, "samples": samples,
           "rule": "ordered selections (size<=3: every assertion order, so kinds sharing an identifier interleave) and subsets (size<=%d) of %d record makers, at document level and inside a bundle; reference unification as oracle" % (maxk, len(names)),
           "failures_found": len(failures), "failures": list(failures.values())}
    if a.out:
        json.dump(res, open(a.out, "w"), indent=1)
    print("C08 native battery: %d cases, %d failing clause groups" % (n, len(failures)))
    for f in failures.values():
        print("  ", f["clauses"], f["kf"], f["what"][:200])
    return 1 if failures else 0


def _cross_kind(combo):
    ids = {}
    for nm in combo:
        ident = "g1" if "g1" in nm else ("e1" if "e1" in nm.split("(")[0] else None)
        kind = nm.split("-")[0] if nm.split("-")[0] in ("agent", "gen", "use") else "x"
        if ident:
            ids.setdefault(ident, set()).add(kind)
    return any(len(k) > 1 for k in ids.values())


if __name__ == "__main__":
    sys.exit(main())
