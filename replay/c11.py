#!/usr/bin/env python
"""Native battery for C11 (reading foreign PROV-JSON / PROV-XML is stable under re-serialisation).  Bounded.

Inputs (none produced by the library's writers as they stand):
  (a) the ProvToolbox corpus shipped with the tests (src/prov/tests/json/*.json, src/prov/tests/xml/*.xml);
  (b) single-point mutations of every corpus JSON file: wrap single values in arrays, wrap a record object in an
      array, reverse the order of keys at every level, rename a prefix consistently, move the prefix block of a
      bundle-free document into the records' ... (document <-> bundle move only where a bundle exists), spell
      typed values with string "$";
  (c) specification-driven spellings of generated documents: the strict content of a generated document is
      re-emitted by an own PROV-JSON emitter in a foreign style (record arrays for repeated identifiers, several
      entities in one hadMember, every single value wrapped in an array, bundle-level prefix blocks only).
Checks per text: load raises a library error (ProvException / ValueError family) or yields d with
  no-drop-no-invent: strict(d) == content read by the independent reader (replay/indep.py);
  stable-same-format: strict(load(write(d))) == strict(d);
  stable-cross-format: JSON -> d -> XML -> d' has the same content (when XML-expressible)."""
import argparse
import copy
import glob
import json
import os
import sys

sys.path.insert(0, os.path.dirname(os.path.abspath(__file__)))
import common  # noqa: E402
import indep  # noqa: E402
import roundtrip  # noqa: E402
import prov  # noqa: E402
from prov.model import ProvDocument, ProvException  # noqa: E402

TESTS = os.path.join(os.path.dirname(os.path.abspath(prov.__file__)), "tests")
LIB_ERRORS = (prov.Error, ValueError, KeyError, TypeError)   # what the library raises for input it refuses


def load(text, fmt):
    return ProvDocument.deserialize(content=text, format=fmt)


# ---------------------------------------------------------------------------------------------- JSON mutations
def mut_wrap_values(j):
    """every single attribute value -> [value]"""
    j = copy.deepcopy(j)

    def recs(c):
        for k, table in c.items():
            if k in ("prefix", "bundle"):
                continue
            for rid, body in table.items():
                for obj in (body if isinstance(body, list) else [body]):
                    for a in list(obj):
                        if not a.startswith("prov:") or a in ("prov:type", "prov:label", "prov:location", "prov:role", "prov:value"):
                            if not isinstance(obj[a], list):
                                obj[a] = [obj[a]]
    recs(j)
    for b in j.get("bundle", {}).values():
        recs(b)
    return j


def mut_wrap_records(j):
    j = copy.deepcopy(j)

    def recs(c):
        for k, table in c.items():
            if k in ("prefix", "bundle"):
                continue
            for rid in list(table):
                if not isinstance(table[rid], list):
                    table[rid] = [table[rid]]
    recs(j)
    for b in j.get("bundle", {}).values():
        recs(b)
    return j


def mut_reverse_keys(j):
    if isinstance(j, dict):
        return {k: mut_reverse_keys(j[k]) for k in reversed(list(j))}
    if isinstance(j, list):
        return [mut_reverse_keys(x) for x in j]
    return j


def mut_rename_prefix(j):
    """rename the first declared prefix (not prov/xsd/default) consistently to 'renamed0'"""
    text = json.dumps(j)
    prefixes = [p for p in j.get("prefix", {}) if p not in ("default", "prov", "xsd", "xsi")]
    if not prefixes:
        return None
    p = sorted(prefixes)[0]
    out = json.loads(text)

    def ren(x):
        if isinstance(x, dict):
            return {(("renamed0" + k[len(p):]) if isinstance(k, str) and (k == p or k.startswith(p + ":")) else k): ren(v) for k, v in x.items()}
        if isinstance(x, list):
            return [ren(v) for v in x]
        if isinstance(x, str) and x.startswith(p + ":") and "://" not in x:
            return "renamed0" + x[len(p):]
        return x
    return ren(out)


def mut_string_dollar(j):
    """typed values with a numeric/boolean "$" spelled as strings"""
    def go(x):
        if isinstance(x, dict):
            if "$" in x and "type" in x and not isinstance(x["$"], str):
                y = dict(x)
                y["$"] = json.dumps(x["$"]) if isinstance(x["$"], bool) else str(x["$"])
                return y
            return {k: go(v) for k, v in x.items()}
        if isinstance(x, list):
            return [go(v) for v in x]
        return x
    return go(copy.deepcopy(j))


def mut_move_prefixes_to_bundles(j):
    """copy the document's prefix block into every bundle (bundle-level prefix blocks)"""
    if not j.get("bundle") or not j.get("prefix"):
        return None
    j = copy.deepcopy(j)
    for b in j["bundle"].values():
        pb = dict(j["prefix"])
        pb.update(b.get("prefix", {}))
        b["prefix"] = pb
    return j


MUTATIONS = [("wrap-values", mut_wrap_values), ("wrap-records", mut_wrap_records), ("reverse-keys", mut_reverse_keys),
             ("rename-prefix", mut_rename_prefix), ("string-dollar", mut_string_dollar), ("prefixes-into-bundles", mut_move_prefixes_to_bundles)]


# ---------------------------------------------------------------------------------------------- foreign emitter
def foreign_json(d):
    """PROV-JSON text for the strict content of a library document, emitted by own code in a foreign style"""
    import collections
    s = common.strict(d)
    PROVNS = indep.PROV
    kinds = {v: k for k, v in indep.KINDS.items()}
    prefixes = {}

    def q(uri):
        if uri.startswith(PROVNS):
            return "prov:" + uri[len(PROVNS):]
        if uri.startswith(indep.XSD):
            return "xsd:" + uri[len(indep.XSD):]
        cut = max(uri.rfind("/"), uri.rfind("#")) + 1
        ns, local = uri[:cut], uri[cut:]
        if ns not in prefixes:
            prefixes[ns] = "p%d" % len(prefixes)
        return "%s:%s" % (prefixes[ns], local)

    def val(v):
        k = v[0]
        if k == "str":
            return v[1]
        if k == "bool":
            return {"$": "true" if v[1] else "false", "type": "xsd:boolean"}
        if k == "int":
            return {"$": str(v[1]), "type": "xsd:int"}
        if k == "float":
            return {"$": v[1], "type": "xsd:double"}
        if k == "datetime":
            off = v[2]
            tz = "" if off is None else ("Z" if off == 0 else "%s%02d:%02d" % ("-" if off < 0 else "+", abs(int(off)) // 3600, abs(int(off)) % 3600 // 60))
            return {"$": v[1] + tz, "type": "xsd:dateTime"}
        if k == "Identifier":
            return {"$": v[1], "type": "xsd:anyURI"}
        if k == "QualifiedName":
            return {"$": q(v[1]), "type": "prov:QUALIFIED_NAME"}
        if k == "Literal":
            if v[3]:
                return {"$": v[1], "lang": v[3]}
            return {"$": v[1], "type": q(v[2])}
        raise AssertionError(v)

    def container(recs):
        c = collections.OrderedDict()
        anon = 0
        members = {}
        for (t, i, attrs), n in recs:
            for _ in range(n):
                kind = kinds[t[len(PROVNS):]]
                obj = collections.OrderedDict()
                for (a, v), m in attrs:
                    for _m in range(m):
                        key = q(a)
                        local = a[len(PROVNS):] if a.startswith(PROVNS) else None
                        if local in indep.REF_ATTRS:
                            one = q(v[1])
                        elif local in indep.TIME_ATTRS:
                            one = val(v)["$"]
                        else:
                            one = val(v)
                        if key in obj:
                            obj[key] = (obj[key] if isinstance(obj[key], list) else [obj[key]]) + [one]
                        elif local in indep.REF_ATTRS or local in indep.TIME_ATTRS:
                            obj[key] = one
                        else:
                            obj[key] = [one]                       # single values wrapped in arrays
                if kind == "hadMember" and i is None and isinstance(obj.get("prov:entity"), str):
                    # memberships of one collection are folded into one record listing several entities
                    coll = obj["prov:collection"]
                    if coll in members and len(obj) == 2:
                        tgt = members[coll]
                        tgt["prov:entity"] = (tgt["prov:entity"] if isinstance(tgt["prov:entity"], list) else [tgt["prov:entity"]]) + [obj["prov:entity"]]
                        continue
                    if len(obj) == 2:
                        members[coll] = obj
                if i is None and kind == "hadMember":
                    rid = "_:members"             # all anonymous memberships as one record array
                elif i is None:
                    anon += 1
                    rid = "_:f%d" % anon
                else:
                    rid = q(i)
                table = c.setdefault(kind, collections.OrderedDict())
                if rid in table:
                    table[rid] = (table[rid] if isinstance(table[rid], list) else [table[rid]]) + [obj]   # record arrays
                else:
                    table[rid] = obj
        return c

    top = container(s[""])
    bundles = collections.OrderedDict()
    for b in sorted(k for k in s if k):
        bundles[q(b)] = container(s[b])
    block = {p: ns for ns, p in prefixes.items()}
    out = collections.OrderedDict()
    if bundles:
        for bc in bundles.values():
            bc["prefix"] = dict(block)           # bundle-level prefix blocks
            bc.move_to_end("prefix", last=False)
        out["bundle"] = bundles
    out.update(top)
    out["prefix"] = block                        # prefix block last: readers must not depend on key order
    return json.dumps(out, indent=1)


def foreign_xml(d):
    """PROV-XML text for the strict content of a library document, emitted by own code in a foreign style:
    namespace declarations sit on the elements that use them (every attribute element binds the one prefix 'n'
    to its own namespace, so 'n' is rebound from element to element), identifiers use per-record prefixes"""
    from xml.sax.saxutils import escape, quoteattr
    s = common.strict(d)
    P = indep.PROV
    kinds = {v: k for k, v in indep.KINDS.items()}

    def split(uri):
        cut = max(uri.rfind("/"), uri.rfind("#")) + 1
        return uri[:cut], uri[cut:]

    def ref(uri, decls, hint):
        ns, local = split(uri)
        if ns == P:
            return "prov:" + local
        decls[hint] = ns
        return "%s:%s" % (hint, local)

    def value_xml(a, v, out, indent):
        ans, alocal = split(a)
        decls = {}
        tag = ("prov:" + alocal) if ans == P else ("n:" + alocal)
        if ans != P:
            decls["n"] = ans
        k = v[0]
        attrs = ""
        text = ""
        if ans == P and alocal in indep.REF_ATTRS:
            attrs = " prov:ref=%s" % quoteattr(ref(v[1], decls, "r"))
        elif ans == P and alocal in indep.TIME_ATTRS:
            text = _dt_text(v)
        elif k == "str":
            text = v[1]
        elif k == "bool":
            attrs, text = ' xsi:type="xsd:boolean"', "true" if v[1] else "false"
        elif k == "int":
            attrs, text = ' xsi:type="xsd:int"', str(v[1])
        elif k == "float":
            attrs, text = ' xsi:type="xsd:double"', v[1]
        elif k == "datetime":
            attrs, text = ' xsi:type="xsd:dateTime"', _dt_text(v)
        elif k == "Identifier":
            attrs, text = ' xsi:type="xsd:anyURI"', v[1]
        elif k == "QualifiedName":
            attrs, text = ' xsi:type="xsd:QName"', ref(v[1], decls, "v")
        elif k == "Literal":
            if v[3]:
                attrs, text = " xml:lang=%s" % quoteattr(v[3]), v[1]
            else:
                attrs, text = " xsi:type=%s" % quoteattr(ref(v[2], decls, "t") if not v[2].startswith(indep.XSD) else "xsd:" + v[2][len(indep.XSD):]), v[1]
        dtext = "".join(" xmlns:%s=%s" % (p_, quoteattr(u)) for p_, u in sorted(decls.items()))
        out.append("%s<%s%s%s>%s</%s>" % (indent, tag, dtext, attrs, escape(text), tag))

    def _dt_text(v):
        off = v[2]
        tz = "" if off is None else ("Z" if off == 0 else "%s%02d:%02d" % ("-" if off < 0 else "+", abs(int(off)) // 3600, abs(int(off)) % 3600 // 60))
        return v[1] + tz

    def container(recs, out, indent):
        for (t, i, attrs), n in recs:
            for _ in range(n):
                kind = kinds[t[len(P):]]
                decls = {}
                idattr = ""
                if i is not None:
                    idattr = " prov:id=%s" % quoteattr(ref(i, decls, "i"))
                # decoy bindings on the record element: every child rebinds the prefixes it uses (XML scoping)
                for p_ in ("n", "v", "t", "r"):
                    decls.setdefault(p_, "http://decoy.example/%s/" % p_)
                dtext = "".join(" xmlns:%s=%s" % (p_, quoteattr(u)) for p_, u in sorted(decls.items()))
                out.append("%s<prov:%s%s%s>" % (indent, kind, dtext, idattr))
                # PROV-XML schema order: formal children first (in the kind's order), then the others
                pairs = [(a, v) for (a, v), m in attrs for _m in range(m)]
                formal = [pv for pv in pairs if pv[0].startswith(P) and pv[0][len(P):] in (indep.REF_ATTRS | indep.TIME_ATTRS)]
                others = [pv for pv in pairs if pv not in formal]
                order = ["entity", "activity", "generatedEntity", "usedEntity", "specificEntity", "generalEntity", "alternate1", "alternate2", "collection",
                         "informed", "informant", "delegate", "responsible", "influencee", "influencer", "trigger", "starter", "ender", "agent", "plan",
                         "generation", "usage", "bundle", "time", "startTime", "endTime"]
                if kind == "used":
                    order = ["activity", "entity", "time"]
                if kind in ("wasAssociatedWith", "wasStartedBy", "wasEndedBy", "actedOnBehalfOf"):
                    order = ["delegate", "responsible", "activity", "trigger", "starter", "ender", "agent", "plan", "time"]
                if kind == "wasDerivedFrom":
                    order = ["generatedEntity", "usedEntity", "activity", "generation", "usage"]
                formal.sort(key=lambda pv: order.index(pv[0][len(P):]) if pv[0][len(P):] in order else 99)
                provothers = [pv for pv in others if pv[0].startswith(P)]
                rest = [pv for pv in others if not pv[0].startswith(P)]
                po = ["label", "location", "role", "type", "value"]
                provothers.sort(key=lambda pv: po.index(pv[0][len(P):]) if pv[0][len(P):] in po else 99)
                for a_, v_ in formal + provothers + rest:
                    value_xml(a_, v_, out, indent + "  ")
                out.append("%s</prov:%s>" % (indent, kind))

    out = ['<?xml version="1.0" encoding="UTF-8"?>',
           '<prov:document xmlns:prov="http://www.w3.org/ns/prov#" xmlns:xsi="http://www.w3.org/2001/XMLSchema-instance" xmlns:xsd="http://www.w3.org/2001/XMLSchema">']
    container(s[""], out, "  ")
    for b in sorted(k for k in s if k):
        ns, local = split(b)
        out.append('  <prov:bundleContent xmlns:b=%s prov:id=%s>' % (quoteattr(ns), quoteattr("b:" + local)))
        container(s[b], out, "    ")
        out.append("  </prov:bundleContent>")
    out.append("</prov:document>")
    return "\n".join(out)


HAND_WRITTEN_JSON = {
    "membership-array-multi-entity-first": {
        "prefix": {"ex": "http://example.org/"},
        "entity": {"ex:c1": {}, "ex:c2": {}, "ex:e1": {}, "ex:e2": {}, "ex:e3": {}, "ex:e4": {}},
        "hadMember": {"_:m": [{"prov:collection": "ex:c1", "prov:entity": ["ex:e1", "ex:e2", "ex:e3"]},
                              {"prov:collection": "ex:c2", "prov:entity": ["ex:e4"]}],
                      "_:k": [{"prov:collection": "ex:c2", "prov:entity": "ex:e1"},
                              {"prov:collection": "ex:c1", "prov:entity": ["ex:e4", "ex:e2"]}, {"prov:collection": "ex:c2", "prov:entity": "ex:e3"}]},
    },
    "membership-multi-entity-then-empty-array": {
        "prefix": {"ex": "http://example.org/"},
        "hadMember": {"_:m": {"prov:collection": "ex:c1", "prov:entity": ["ex:e1", "ex:e2"]}, "_:n": []},
    },
    "record-arrays-and-literal-spellings": {
        "prefix": {"ex": "http://example.org/", "default": "http://default.example/"},
        "entity": {"ex:e": [{"ex:a": [1, {"$": "2", "type": "xsd:int"}, {"$": 3, "type": "xsd:long"}]}, {}, {"ex:a": {"$": "x", "lang": "en"}}],
                   "local": {"prov:label": [{"$": "l", "lang": "fr"}, "plain"], "prov:type": {"$": "ex:T", "type": "prov:QUALIFIED_NAME"}}},
        "activity": {"ex:a": {"prov:startTime": "2012-01-01T00:00:00Z", "prov:endTime": "2012-01-02T00:00:00+01:00"}},
        "wasGeneratedBy": {"_:g": [{"prov:entity": "ex:e", "prov:activity": "ex:a"}, {"prov:entity": "local", "prov:time": "2012-01-01T10:00:00"}]},
        "bundle": {"ex:b": {"prefix": {"ex": "http://bundle.example/", "q": "http://q.example/"}, "entity": {"ex:e": {"q:v": {"$": "true", "type": "xsd:boolean"}}}}},
    },
}


# ---------------------------------------------------------------------------------------------- the checks
def check_text(text, fmt, key, fail, xml_expressible=True, want=None):
    try:
        d = load(text, fmt)
    except LIB_ERRORS as e:
        return "refused"
    s = common.strict(d)
    if want is None:
        try:
            want = (indep.read_json if fmt == "json" else indep.read_xml)(text)
        except Exception as e:  # noqa: the independent reader cannot read it: no oracle for drop/invent
            want = None
    ck_ = (common.collision_keys(want) | common.collision_keys(s)) if want is not None else set()
    if want is not None and s != want and common.drop_collisions(s, ck_) != common.drop_collisions(want, ck_):
        want, s_cmp = common.drop_collisions(want, ck_), common.drop_collisions(s, ck_)
        fail("no-drop-no-invent", common.classify(want, s_cmp), "%s: loading differs from what the text says: %s" % (key, common.diff_strict(want, s)[:2]), d)
    for fmt2 in ("json", "xml"):
        if fmt2 == "xml" and not xml_expressible:
            continue
        try:
            d2 = load(d.serialize(format=fmt2), fmt2)
            s2 = common.strict(d2)
            if s2 != s:
                fail("stable-same-format" if fmt2 == fmt else "stable-cross-format", common.classify(s, s2),
                     "%s: %s -> d -> %s -> d' changes the content: %s" % (key, fmt, fmt2, common.diff_strict(s, s2)[:2]), d)
        except Exception as e:  # noqa
            fail("stable-same-format" if fmt2 == fmt else "stable-cross-format", common.exc_class(e), "%s: writing/reloading as %s raised %r" % (key, fmt2, e), d)
    return "loaded"


def xml_ok(d):
    """C02's notion of XML-expressible, decided on the loaded document"""
    import re
    for c in [d] + list(d.bundles):
        for r in c.get_records():
            for a, v in r.attributes:
                if not re.match(r"^[A-Za-z_][A-Za-z0-9_.\-]*$", a.localpart):
                    return False
                if isinstance(v, str) and ("\r" in v or v == ""):
                    return False
    return True


def main():
    ap = argparse.ArgumentParser()
    ap.add_argument("--search", action="store_true")
    ap.add_argument("--replay")
    ap.add_argument("--tier", default="quick")
    ap.add_argument("--seed", type=int, default=0)
    ap.add_argument("--out")
    a = ap.parse_args()
    kfs = roundtrip.load_kf("C11")
    failures = {}
    n = 0
    counts = {"refused": 0, "loaded": 0}

    def mk_fail(features):
        def fail(clause, cls, what, d):
            kf = None
            for kid, keys, feat in kfs:
                if any((cls.startswith(k_[:-1]) if k_.endswith("*") else cls == k_) for k_ in keys) and (feat is None or feat in features or feat == clause):
                    kf = kid
            failures.setdefault((clause, cls, kf), {"key": "%s|%s" % (clause, cls), "kf": kf, "clauses": [clause], "what": what, "history": [what.split(":")[0]]})
        return fail

    jfiles = sorted(glob.glob(os.path.join(TESTS, "json", "*.json")))
    xfiles = sorted(glob.glob(os.path.join(TESTS, "xml", "*.xml")))
    if a.tier != "thorough":
        jfiles = jfiles[a.seed % 4::4]          # a quarter of the corpus per quick run (rotating with the seed)
    # (a) corpus as it is
    for f in jfiles:
        n += 1
        text = open(f, encoding="utf-8").read()
        try:
            d0 = load(text, "json")
            xe = xml_ok(d0)
        except Exception:  # noqa
            xe = False
        counts[check_text(text, "json", "corpus:" + os.path.basename(f), mk_fail({"corpus"}), xml_expressible=xe)] += 1
    for f in xfiles:
        n += 1
        text = open(f, encoding="utf-8").read()
        counts[check_text(text, "xml", "corpus:" + os.path.basename(f), mk_fail({"corpus", "corpus-xml"}))] += 1
    # (b) mutations of the corpus JSON files
    for f in jfiles:
        j = json.load(open(f, encoding="utf-8"))
        for mname, m in MUTATIONS:
            try:
                j2 = m(j)
            except Exception:  # noqa
                j2 = None
            if j2 is None or j2 == j and mname != "reverse-keys":
                continue
            n += 1
            text = json.dumps(j2)
            try:
                want = indep.read_json(json.dumps(j))      # a mutation does not change what the text says
            except Exception:  # noqa
                want = None
            try:
                xe = xml_ok(load(text, "json"))
            except Exception:  # noqa
                xe = False
            counts[check_text(text, "json", "mutation:%s:%s" % (mname, os.path.basename(f)), mk_fail({"mutation", "mutation:" + mname}), xml_expressible=xe, want=want)] += 1
    # (d) hand-written texts in forms the library's writer never produces
    for name, j in HAND_WRITTEN_JSON.items():
        n += 1
        counts[check_text(json.dumps(j), "json", "hand-written:" + name, mk_fail({"hand-written"}), xml_expressible=True)] += 1
    # (c) foreign spellings of generated documents
    count = 600 if a.tier == "thorough" else 120
    feats = common.Gen.ALL - {"full-uri-name", "cr", "unregistered-datatype", "odd-prefix", "empty-string"}
    for i, d in common.documents(a.seed + 1000, count, feats):
        n += 1
        text = foreign_json(d)
        counts[check_text(text, "json", "foreign-emitter:#%d" % i, mk_fail(set(d._features) | {"foreign-emitter"}), xml_expressible=True, want=common.strict(d))] += 1
        n += 1
        counts[check_text(foreign_xml(d), "xml", "foreign-xml-emitter:#%d" % i, mk_fail(set(d._features) | {"foreign-emitter", "foreign-xml"}), xml_expressible=True, want=common.strict(d))] += 1
    if a.replay:
        info = json.load(open(a.replay))
        print("obligation:", info.get("obligation"))
        bad = [f for f in failures.values() if not f["kf"]]
        for f in bad:
            print("still failing:", f["what"])
        return 1 if bad else 0
    res = {"evaluations": n, "distinct": n, "samples": ["corpus:" + os.path.basename(jfiles[0]), "mutation:wrap-values:" + os.path.basename(jfiles[0]), "foreign-emitter:#0"],
           "rule": "corpus files (%d JSON, %d XML) + %d mutations x JSON files + %d generated documents re-emitted by an own foreign-style PROV-JSON emitter; %d refused by the library, %d loaded" % (
               len(jfiles), len(xfiles), len(MUTATIONS), count, counts["refused"], counts["loaded"]),
           "failures_found": len(failures), "failures": list(failures.values())}
    if a.out:
        json.dump(res, open(a.out, "w"), indent=1)
    print("C11 native battery: %d texts (%d refused, %d loaded), %d failure classes" % (n, counts["refused"], counts["loaded"], len(failures)))
    for f in failures.values():
        print("  ", "[%s]" % (f["kf"] or "NEW"), f["key"], "|", f["what"][:230])
    return 1 if [f for f in failures.values() if not f["kf"]] else 0


if __name__ == "__main__":
    sys.exit(main())
