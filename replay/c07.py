#!/usr/bin/env python
"""Native battery for C07 (PROV-O (RDF) round trip preserves unified content of expressible documents).  Bounded.

Generated documents are filtered down to the PROV-O-expressible ones exactly as C07 lists them (registered
non-empty prefixes on the document only, non-empty bundles, one kind per identifier, first two formal arguments
present, no mention, no PROV class name as prov:type of a relation, bare anonymous attribution / communication /
delegation / influence / specialization / alternate / membership, no identified + anonymous relation of one kind
on one subject, values among strings, ints, booleans, datetimes, URIs, qualified names, language-tagged strings).
Each is written as RDF (default TriG) and read back; the result must equal unified() as a set of records."""
import argparse
import json
import os
import sys
from collections import Counter

sys.path.insert(0, os.path.dirname(os.path.abspath(__file__)))
import common  # noqa: E402
from prov.model import ProvDocument, ProvException  # noqa: E402
from prov.constants import (PROV_MENTION, PROV_ATTRIBUTION, PROV_COMMUNICATION, PROV_DELEGATION, PROV_INFLUENCE, PROV_SPECIALIZATION,  # noqa: E402
                            PROV_ALTERNATE, PROV_MEMBERSHIP, PROV_ATTRIBUTE_QNAMES, PROV)

FEATURES = {"str-special", "bigint", "bool", "datetime", "tz", "uri", "qname-value", "lang", "multi-value", "bundle", "anon", "repeat-id",
            "qname-object", "formal-optional", "prov-attrs", "empty-string", "prov-like-local"}
BARE_KINDS = {PROV_ATTRIBUTION, PROV_COMMUNICATION, PROV_DELEGATION, PROV_INFLUENCE, PROV_SPECIALIZATION, PROV_ALTERNATE, PROV_MEMBERSHIP}


def expressible(d):
    """C07's quantifier, decided on the document; -> reason it is outside, or None"""
    kinds = {}
    for c in [d] + list(d.bundles):
        recs = list(c.get_records())
        if c is not d and not recs:
            return "empty bundle"
        subj = {}
        for r in recs:
            if r.identifier is not None:
                kinds.setdefault(r.identifier.uri, set()).add(r.get_type().uri)
            if r.is_element():
                continue
            if r.get_type() == PROV_MENTION:
                return "mention"
            fa = r.formal_attributes
            if len(fa) < 2 or fa[0][1] is None or fa[1][1] is None:
                return "relation lacking one of its first two arguments"
            extra = list(r.extra_attributes)
            optional = [v for _, v in fa[2:] if v is not None]
            for a, v in extra:
                if a.uri == PROV["type"].uri and getattr(v, "uri", "").startswith(PROV.uri):
                    return "PROV class as prov:type of a relation"
            if r.identifier is None and r.get_type() in BARE_KINDS and (extra or optional):
                return "anonymous relation of a kind that has no qualified form carrying attributes"
            key = (fa[0][1].uri, r.get_type().uri)
            subj.setdefault(key, set()).add(r.identifier is not None)
        if any(len(v) > 1 for v in subj.values()):
            return "identified and anonymous relation of one kind on one subject"
    if any(len(v) > 1 for v in kinds.values()):
        return "identifier naming records of two kinds"
    return None


def hand_built():
    """several anonymous relations of one qualifiable kind between one pair of nodes, differing in time, role or
    extra attributes; an identified one next to them on another subject"""
    import datetime
    t = datetime.datetime(2020, 1, 1, 10, 0, 0)
    d = ProvDocument()
    d.add_namespace("ex", "http://example.org/")
    d.entity("ex:e"); d.activity("ex:a"); d.agent("ex:ag"); d.activity("ex:a2")
    d.usage("ex:a", "ex:e", t)
    d.usage("ex:a", "ex:e", t + datetime.timedelta(hours=1))
    d.association("ex:a", "ex:ag", None, None, {"prov:role": "author"})
    d.association("ex:a", "ex:ag", None, None, {"prov:role": "reviewer"})
    d.generation("ex:e", "ex:a", None, None, {"ex:how": "first"})
    d.generation("ex:e", "ex:a", None, None, {"ex:how": "second"})
    d.usage("ex:a2", "ex:e", t, "ex:u1", {"ex:k": 1})
    d._features = ["hand-built"]
    return d


def merge_collision_keys(sd):
    """collision groups (values Python's == identifies although they differ in kind: False/0, 1/True/1.0, Identifier /
    QualifiedName of one URI) that arise when the records of one identifier and kind are merged: which member of such
    a group a Python set keeps depends on insertion order, so it is content neither of unified() nor of the document
    read back (the case C01 excludes as well)"""
    groups = {}
    for b, recs in sd.items():
        for (t, i, attrs), n in recs:
            if i is None:
                continue
            for (a, v), m in attrs:
                groups.setdefault((b, t, i, a, common._py_class(v)), set()).add(v)
    return {k for k, vs in groups.items() if len(vs) > 1}


def as_set(s):
    return {b: frozenset((t, i, frozenset(a for a, n in attrs)) for (t, i, attrs), m in recs) for b, recs in s.items()}


def main():
    ap = argparse.ArgumentParser()
    ap.add_argument("--search", action="store_true")
    ap.add_argument("--replay")
    ap.add_argument("--tier", default="quick")
    ap.add_argument("--seed", type=int, default=0)
    ap.add_argument("--out")
    a = ap.parse_args()
    from roundtrip import load_kf
    kfs = load_kf("C07")
    failures = {}
    n = 0
    candidates = 6000 if a.tier == "thorough" else 1200
    outside = Counter()
    samples = []
    distinct = set()
    def all_documents():
        yield "hand-built", hand_built()
        yield "well-known-vocabularies", common.wellknown_document()
        for i_, d_ in common.documents(a.seed + 7, candidates, FEATURES, max_records=3):
            yield i_, d_

    for i, d in all_documents():
        why = expressible(d)
        if why is None:
            try:
                u = d.unified()
            except ProvException:
                why = "no unified form"
        if why is not None:
            outside[why] += 1
            continue
        n += 1
        ck = merge_collision_keys(common.strict(d))
        want = as_set(common.drop_collisions(common.strict(u), ck))
        distinct.add(repr(want))
        if len(samples) < 2:
            samples.append({"case": i, "provn": common.describe(d)[:500]})
        try:
            text = d.serialize(format="rdf")
            d2 = ProvDocument.deserialize(content=text, format="rdf")
            got = as_set(common.drop_collisions(common.strict(d2), ck))
            cls = None if got == want else common.classify(common.drop_collisions(common.strict(u), ck), common.drop_collisions(common.strict(d2), ck))
            detail = common.diff_strict(common.drop_collisions(common.strict(u), ck), common.drop_collisions(common.strict(d2), ck))[:2] if cls else None
        except Exception as e:  # noqa
            cls, detail, text = common.exc_class(e), [repr(e)[:300]], ""
        if cls:
            kf = None
            for kid, keys, feat in kfs:
                if any((cls.startswith(k_[:-1]) if k_.endswith("*") else cls == k_) for k_ in keys) and (feat is None or feat in d._features):
                    kf = kid
            fk = (cls, kf)
            if fk not in failures or len(common.describe(d)) < failures[fk]["size"]:
                failures[fk] = {"key": cls, "kf": kf, "clauses": ["round-trip"], "size": len(common.describe(d)), "features": d._features,
                                "what": "RDF round trip of generated document #%s (seed %d) differs from unified(): %s" % (i, a.seed, cls),
                                "detail": detail, "provn": common.describe(d)[:2500], "history": ["seed=%d case=%s" % (a.seed, i)]}
    if a.replay:
        info = json.load(open(a.replay))
        print("obligation:", info.get("obligation"))
        bad = [f for f in failures.values() if not f["kf"]]
        for f in bad:
            print("still failing:", f["what"])
        return 1 if bad else 0
    res = {"evaluations": n, "distinct": len(distinct), "samples": samples,
           "rule": "2 hand-built documents (parallel anonymous relations; the usual vocabularies rdf/rdfs/owl/dcterms/foaf/skos as attribute names, value, identifier and endpoints) + %d generated candidates (<= 3 records per container), %d PROV-O-expressible by C07's own conditions (outside: %s); written as TriG and read back; set-based comparison with unified()" % (
               candidates, n, dict(outside)),
           "failures_found": len(failures), "failures": list(failures.values())}
    if a.out:
        json.dump(res, open(a.out, "w"), indent=1)
    print("C07 native battery: %d expressible documents of %d candidates, %d failure classes" % (n, candidates, len(failures)))
    for f in failures.values():
        print("  ", "[%s]" % (f["kf"] or "NEW"), f["key"], "|", (f["detail"] or [""])[0][:260])
    return 1 if [f for f in failures.values() if not f["kf"]] else 0


if __name__ == "__main__":
    sys.exit(main())
