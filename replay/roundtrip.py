"""Round-trip batteries for C01 (PROV-JSON) and C02 (PROV-XML): bounded stand-ins / replay steps, never proof.

For each generated document and writer-option combination: write, read back, compare strict content
(replay/common.py).  A failure is named by its class (common.classify / exc_class); classes listed in
known_findings.json (input_key) are reported as known findings by ./check, everything else as a violation."""
import argparse
import io
import itertools
import json
import os
import sys

import common
from prov.model import ProvDocument


def options(fmt):
    if fmt == "json":
        out = []
        for indent, sk, ea in itertools.product((None, 2), (False, True), (True, False)):
            kw = {}
            if indent is not None:
                kw["indent"] = indent
            if sk:
                kw["sort_keys"] = True
            if not ea:
                kw["ensure_ascii"] = False
            out.append(kw)
        return out
    if fmt == "xml":
        return [{}, {"force_types": True}]
    return [{}]


def roundtrip(d, fmt, kw):
    text = d.serialize(format=fmt, **kw)
    return text, ProvDocument.deserialize(content=text, format=fmt)


def load_kf(prop):
    """[(id, [class keys], required feature or None)] of the known findings of a property"""
    path = os.path.join(os.path.dirname(os.path.abspath(__file__)), "..", "known_findings.json")
    out = []
    for k in json.load(open(path))["findings"]:
        if k["property"] == prop:
            out.append((k["id"], k.get("input_keys") or [k.get("input_key")], k.get("requires_feature")))
    return out


def mutate(d, i):
    """a later chapter of the document's history, through the public writers of the model: times set on activities,
    an attribute and an asserted type added to records already printed, a record added to every container"""
    import datetime
    from prov.model import ProvActivity, ProvElement
    from prov.constants import PROV
    t = datetime.datetime(2001, 2, 3, 4, 5, 6) + datetime.timedelta(days=i)
    for c in [d] + list(d.bundles):
        recs = list(c.get_records())
        for k, r in enumerate(recs):
            if isinstance(r, ProvActivity) and (i + k) % 2 == 0 and not r.get_startTime() and not r.get_endTime():
                r.set_time(t, t + datetime.timedelta(hours=1) if k % 2 else None)
            if (i + k) % 3 == 0:
                r.add_attributes({PROV["label"]: "added later #%d\nsecond line \"q\"" % k})
            if isinstance(r, ProvElement) and (i + k) % 3 == 1:
                r.add_asserted_type(PROV["Plan"])
        c.entity(PROV["late-%d" % i], {PROV["value"]: i})


def run(prop, fmt, features, kf_classes=None, argv=None, reader=None, label="round trip", share=1.0, history=False):
    if kf_classes is None:
        kf_classes = load_kf(prop)
    ap = argparse.ArgumentParser()
    ap.add_argument("--search", action="store_true")
    ap.add_argument("--replay")
    ap.add_argument("--tier", default="quick")
    ap.add_argument("--seed", type=int, default=0)
    ap.add_argument("--out")
    a, _unknown = ap.parse_known_args(argv)
    count = int((2500 if a.tier == "thorough" else 400) * share)
    opts = options(fmt)
    failures = {}
    n = 0
    nontrivial = set()
    samples = []
    def cases():
        yield -1, common.wellknown_document(), ""
        yield -2, common.scoped_datatype_document(), ""
        for i, d in common.documents(a.seed, count, features):
            yield i, d, ""
            if history:
                try:
                    mutate(d, i)
                except Exception:  # noqa: the writers refused the change (their business: C05/C18)
                    continue
                yield i, d, "printed-then-changed:"

    for i, d, phase in cases():
        kw = opts[i % len(opts)]
        n += 1
        before = common.strict(d)
        nontrivial.add(repr(before))
        try:
            if reader is None:
                text, d2 = roundtrip(d, fmt, kw)
                after = common.strict(d2)
            else:
                text = d.serialize(format=fmt, **kw)
                after = reader(text)
            cls = None if after == before else common.classify(before, after)
            detail = common.diff_strict(before, after) if cls else None
        except Exception as e:  # noqa
            cls = common.exc_class(e)
            detail = [repr(e)[:300]]
            text = None
        if len(samples) < 3 and i % 97 == 5:
            samples.append({"case": i, "options": kw, "features": d._features, "provn": common.describe(d)[:600]})
        if cls:
            kf = None
            for kid, keys, feat in kf_classes:
                if any((cls.startswith(k_[:-1]) if k_.endswith("*") else cls == k_) for k_ in keys) and (feat is None or feat in d._features):
                    kf = kid
            fk = (cls, kf)
            if fk not in failures or len(common.describe(d)) < failures[fk]["size"]:
                failures[fk] = {"key": cls, "kf": kf, "clauses": ["round-trip", cls.split(":")[0]], "size": len(common.describe(d)),
                                 "what": "%s%s %s (%s) of generated document #%d (seed %d) changes the content: %s" % (phase, fmt, label, kw, i, a.seed, cls),
                                 "detail": detail, "features": d._features, "provn": common.describe(d)[:3000], "text": (text or "")[:3000],
                                 "history": ["seed=%d case=%d options=%s" % (a.seed, i, kw)]}
    if a.replay:
        info = json.load(open(a.replay))
        print("obligation:", info.get("obligation"))
        bad = [f for f in failures.values() if not f["kf"]]
        for f in bad:
            print("still failing:", f["what"])
        return 1 if bad else 0
    res = {"evaluations": n, "distinct": len(nontrivial), "samples": samples,
           "rule": "two hand-built documents (the usual vocabularies rdf/rdfs/owl/dcterms/foaf/skos; application-defined datatypes under a prefix bound differently per bundle) + seeded generator of the C01 space (replay/common.py Gen; features: %s), %d documents of <= 5 records per container, writer options rotated over %d combinations%s; distinct = distinct strict contents" % (
               "all" if features is None else sorted(features), count, len(opts),
               "; each document is then changed through set_time / add_attributes / add_asserted_type / a new record per container and printed again" if history else ""),
           "failures_found": len(failures), "failures": list(failures.values())}
    if a.out:
        json.dump(res, open(a.out, "w"), indent=1)
    print("%s native battery (%s %s): %d documents, %d distinct, %d failure classes" % (prop, fmt, label, n, len(nontrivial), len(failures)))
    for f in failures.values():
        print("  ", "[%s]" % (f["kf"] or "NEW"), f["key"], "|", (f["detail"] or [""])[0][:160])
    return 1 if [f for f in failures.values() if not f["kf"]] else 0
