"""KF-C01-unregistered-datatype: a Literal whose datatype lives in a namespace that is not registered in the
document is written as "type": "geo:wkt" without a prefix declaration; reading it back yields a plain str."""
from prov.model import ProvDocument, Literal
from prov.identifier import Namespace
d = ProvDocument()
d.add_namespace("ex", "http://example.org/")
d.entity("ex:e", {"ex:shape": Literal("POINT(1 2)", Namespace("geo", "http://geo.example/")["wkt"])})
d2 = ProvDocument.deserialize(content=d.serialize(format="json"), format="json")
v = list(d2.get_records()[0].attributes)[0][1]
print("value read back: %r" % (v,))
print("REPRODUCED" if not isinstance(v, Literal) else "NOT-REPRODUCED")
