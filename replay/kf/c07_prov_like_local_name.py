"""KF-C07-prov-like-local-name: the RDF reader recognises PROV predicates by substring ('entity', 'activity',
'agent' in the predicate), so an extra attribute of another namespace named e.g. ex:entity on a start/end/
derivation is taken for a formal argument"""
from prov.model import ProvDocument
d = ProvDocument()
d.add_namespace("ex", "http://example.org/")
d.entity("ex:e1"); d.entity("ex:e2")
d.derivation("ex:e2", "ex:e1", identifier="ex:d1", other_attributes={"ex:entity": 7})
try:
    d2 = ProvDocument.deserialize(content=d.serialize(format="rdf"), format="rdf")
    rec = [r for r in d2.get_records() if r.identifier is not None and r.identifier.uri == "http://example.org/d1"][0]
    uris = sorted(a.uri for a, v in rec.attributes)
    bad = "http://example.org/entity" not in uris
    print("attributes read back:", uris)
except Exception as e:  # noqa
    bad = True
    print("reading back raised %r" % e)
print("REPRODUCED" if bad else "NOT-REPRODUCED")
