"""KF-C01-prefix-named-default: a namespace registered under the prefix "default" is written under the key
PROV-JSON reserves for the default namespace; names in it come back unresolvable or in the wrong namespace."""
from prov.model import ProvDocument
d = ProvDocument()
d.add_namespace("default", "http://prefix-named-default.example/")
d.add_namespace("ex", "http://example.org/")
d.entity("ex:e", {"default:attr": 1})
try:
    d2 = ProvDocument.deserialize(content=d.serialize(format="json"), format="json")
    uris = [a.uri for a, v in d2.get_records()[0].attributes]
    bad = uris != ["http://prefix-named-default.example/attr"]
    print("attribute URIs read back:", uris)
except Exception as e:  # noqa
    bad = True
    print("reading back raised %r" % e)
print("REPRODUCED" if bad else "NOT-REPRODUCED")
