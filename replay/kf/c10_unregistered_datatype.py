"""KF-C10-unregistered-datatype: the emitted text names a datatype with a prefix it does not declare"""
import sys
from c10_common import check
from prov.model import ProvDocument, Literal
from prov.identifier import Namespace
d = ProvDocument()
d.add_namespace("ex", "http://example.org/")
d.entity("ex:e", {"ex:shape": Literal("POINT(1 2)", Namespace("geo", "http://geo.example/")["wkt"])})
check(d, sys.argv[1] if len(sys.argv) > 1 else "json")
