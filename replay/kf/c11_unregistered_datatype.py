"""KF-C11-unregistered-datatype: a foreign PROV-XML text that declares the prefix of a literal's datatype on the
attribute element only loads correctly, but the document does not register that namespace, so writing it as PROV-JSON
loses the datatype and writing it as PROV-XML gives a text the library cannot read (root cause: KF-C01-unregistered-datatype)"""
import os, sys
sys.path.insert(0, os.path.join(os.path.dirname(os.path.abspath(__file__)), ".."))
import common  # noqa
from prov.model import ProvDocument, Literal
TEXT = """<?xml version="1.0" encoding="UTF-8"?>
<prov:document xmlns:prov="http://www.w3.org/ns/prov#" xmlns:ex="http://example.org/" xmlns:xsi="http://www.w3.org/2001/XMLSchema-instance">
  <prov:entity prov:id="ex:rod">
    <ex:len xmlns:u="http://units.example/" xsi:type="u:length">12 in</ex:len>
  </prov:entity>
</prov:document>"""
d = ProvDocument.deserialize(content=TEXT, format="xml")
v = list(list(d.get_records())[0].get_attribute("ex:len"))
print("loaded value:", repr(v))
loaded_ok = v and isinstance(v[0], Literal) and v[0].datatype.uri == "http://units.example/length"
d2 = ProvDocument.deserialize(content=d.serialize(format="json"), format="json")
v2 = list(list(d2.get_records())[0].get_attribute("ex:len"))
print("after json write+load:", repr(v2))
try:
    ProvDocument.deserialize(content=d.serialize(format="xml"), format="xml")
    xml = "read"
except Exception as e:  # noqa
    xml = repr(e)
print("after xml write+load:", xml)
print("REPRODUCED" if loaded_ok and (v2 != v or xml != "read") else "NOT-REPRODUCED")
