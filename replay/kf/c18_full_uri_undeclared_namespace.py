"""KF-C18-full-uri-in-undeclared-namespace: get_record(<full URI>) finds nothing when no namespace the container
(or its document) currently declares covers that URI - e.g. a record created under a default namespace that was
re-declared afterwards: valid_qualified_name() cannot turn the URI into a qualified name and returns None"""
from prov.model import ProvDocument
d = ProvDocument()
d.set_default_namespace("http://default.org/")
e = d.entity("local")
before = d.get_record("http://default.org/local")
d.set_default_namespace("http://default2.org/")
after = d.get_record("http://default.org/local")
print("record URI:", e.identifier.uri, "| lookup by that URI before:", before, "after re-declaring the default namespace:", after)
print("REPRODUCED" if before == [e] and not after else "NOT-REPRODUCED")
