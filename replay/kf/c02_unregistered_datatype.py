"""KF-C02-unregistered-datatype: see known_findings.json"""
from prov.model import ProvDocument, Literal
from prov.identifier import Namespace
d = ProvDocument()
d.add_namespace("ex", "http://example.org/")
d.entity("ex:e", {"ex:shape": Literal("POINT(1 2)", Namespace("geo", "http://geo.example/")["wkt"])})
try:
    d2 = ProvDocument.deserialize(content=d.serialize(format="xml"), format="xml")
    v = list(d2.get_records()[0].attributes)[0][1]
    bad = not (isinstance(v, Literal) and v.datatype.uri == "http://geo.example/wkt")
    print("value read back: %r" % (v,))
except Exception as e:  # noqa
    bad = True
    print("reading back raised %r" % e)
print("REPRODUCED" if bad else "NOT-REPRODUCED")
