"""KF-C02-bundle-id-prefix-clash: see known_findings.json"""
from prov.model import ProvDocument
d = ProvDocument()
d.add_namespace("ex", "http://example.org/")
b = d.bundle("ex:b")
b.add_namespace("ex", "http://clash.example/")
b.entity("ex:e")
d2 = ProvDocument.deserialize(content=d.serialize(format="xml"), format="xml")
uris = [x.identifier.uri for x in d2.bundles]
print("bundle identifiers read back:", uris)
print("REPRODUCED" if uris != ["http://example.org/b"] else "NOT-REPRODUCED")
