"""KF-C06-unregistered-datatype: PROV-N prints a datatype with a prefix the text does not declare"""
import os, sys
sys.path.insert(0, os.path.join(os.path.dirname(os.path.abspath(__file__)), ".."))
import provn_reader  # noqa
from prov.model import ProvDocument, Literal
from prov.identifier import Namespace
d = ProvDocument()
d.add_namespace("ex", "http://example.org/")
d.entity("ex:e", {"ex:shape": Literal("POINT(1 2)", Namespace("geo", "http://geo.example/")["wkt"])})
try:
    provn_reader.read_provn(d.get_provn())
    bad = False
except Exception as e:  # noqa
    bad = True
    print("independent PROV-N reader raised %r" % e)
print("REPRODUCED" if bad else "NOT-REPRODUCED")
