"""KF-C10-xml-bundle-id-prefix-clash: prov:id of bundleContent sits in the scope of the bundle's own xmlns declarations"""
from c10_common import check
from prov.model import ProvDocument
d = ProvDocument()
d.add_namespace("ex", "http://example.org/")
b = d.bundle("ex:b")
b.add_namespace("ex", "http://clash.example/")
b.entity("ex:e")
check(d, "xml")
