"""KF-C03-compaction-into-default: a full URI given as text is compacted against the default
namespace although the remainder is not a bare local name."""
from prov.model import ProvDocument
d = ProvDocument()
d.set_default_namespace("http://a/")
q = d.valid_qualified_name("http://a/n:x")
r = d.valid_qualified_name(str(q)) if q is not None else None
bad = q is not None and (r is None or r.uri != q.uri)
print("handed out %r <%s>; its text resolves to %r" % (str(q), q.uri if q else None, r.uri if r else None))
print("REPRODUCED" if bad else "NOT-REPRODUCED")
