"""KF-C10-prefix-named-default: PROV-JSON reserves the key "default" of the prefix block for the default namespace"""
from c10_common import check
from prov.model import ProvDocument
d = ProvDocument()
d.add_namespace("default", "http://prefix-named-default.example/")
d.add_namespace("ex", "http://example.org/")
d.entity("ex:e", {"default:attr": 1})
check(d, "json")
