"""KF-C02-empty-string: see known_findings.json"""
from prov.model import ProvDocument
d = ProvDocument()
d.add_namespace("ex", "http://example.org/")
d.entity("ex:e", {"ex:note": ""})
d2 = ProvDocument.deserialize(content=d.serialize(format="xml"), format="xml")
vals = [v for a, v in d2.get_records()[0].attributes]
print("values read back:", vals)
print("REPRODUCED" if vals != [""] else "NOT-REPRODUCED")
