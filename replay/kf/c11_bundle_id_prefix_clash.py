"""KF-C11-xml-bundle-id-prefix-clash: a foreign PROV-XML text whose bundle rebinds the prefix its identifier is
written with loads correctly, but writing the loaded document as PROV-XML again moves the bundle to another URI"""
import os, sys
sys.path.insert(0, os.path.join(os.path.dirname(os.path.abspath(__file__)), ".."))
import common  # noqa
from prov.model import ProvDocument
TEXT = """<?xml version="1.0" encoding="UTF-8"?>
<prov:document xmlns:prov="http://www.w3.org/ns/prov#" xmlns:r="http://doc.example/">
  <prov:entity prov:id="r:top"/>
  <prov:bundleContent prov:id="r:b1">
    <prov:entity xmlns:r="http://bundle.example/" prov:id="r:inside"/>
  </prov:bundleContent>
</prov:document>"""
d = ProvDocument.deserialize(content=TEXT, format="xml")
d2 = ProvDocument.deserialize(content=d.serialize(format="xml"), format="xml")
a, b = sorted(x.identifier.uri for x in d.bundles), sorted(x.identifier.uri for x in d2.bundles)
print("bundles after loading:", a, "after write+load:", b)
print("REPRODUCED" if a != b else "NOT-REPRODUCED")
