import os, sys
sys.path.insert(0, os.path.join(os.path.dirname(os.path.abspath(__file__)), ".."))
import common, indep  # noqa


def check(d, fmt):
    want = common.strict(d)
    try:
        got = (indep.read_json if fmt == "json" else indep.read_xml)(d.serialize(format=fmt))
        bad = got != want
        print("independent reader content differs:" if bad else "same content", common.classify(want, got) if bad else "")
    except Exception as e:  # noqa
        bad = True
        print("independent reader raised %r" % e)
    print("REPRODUCED" if bad else "NOT-REPRODUCED")
