#!/usr/bin/env python
"""Native battery for C14 (graph conversion mirrors the document and converts back to its unified form).
Bounded.

Scope: bundle-free generated documents (declared and undeclared endpoints, repeated identifiers, parallel
relations between the same nodes, self-loops, relations lacking an endpoint) plus hand-built shapes (k parallel
relations of one kind between one pair, influence between declared elements, entity and agent sharing an
identifier).  Oracle written from the property statement over the unified document."""
import argparse
import datetime
import json
import os
import sys
from collections import Counter

sys.path.insert(0, os.path.dirname(os.path.abspath(__file__)))
import common  # noqa: E402
from prov.model import ProvDocument, ProvElement, ProvRelation, ProvRecord  # noqa: E402
from prov.graph import prov_to_graph, graph_to_prov  # noqa: E402
from prov.constants import PROV_INFLUENCE  # noqa: E402

T = datetime.datetime(2020, 5, 5, 5, 5, 5)


def hand_built():
    d = ProvDocument()
    d.add_namespace("ex", "http://example.org/")
    d.entity("ex:e")
    d.activity("ex:a")
    d.usage("ex:a", "ex:e", T)
    d.usage("ex:a", "ex:e", T + datetime.timedelta(hours=1))      # parallel relations of one kind
    d.usage("ex:a", "ex:e", None, identifier="ex:u3")
    d.generation("ex:e", "ex:a")
    d.derivation("ex:e", "ex:e")                                    # self-loop
    yield "parallel+selfloop", d
    d = ProvDocument()
    d.add_namespace("ex", "http://example.org/")
    d.entity("ex:e1")
    d.agent("ex:ag")
    d.activity("ex:a")
    d.influence("ex:e1", "ex:ag")                                   # influence between declared elements
    d.influence("ex:a", "ex:e1", identifier="ex:i2")
    d.association("ex:a", "ex:ag")
    yield "influence-declared", d
    d = ProvDocument()
    d.add_namespace("ex", "http://example.org/")
    d.entity("ex:x", {"ex:k": 1})
    d.agent("ex:x", {"ex:k": 2})                                    # two kinds under one identifier
    d.entity("ex:x", {"ex:k": 3})
    d.attribution("ex:x", "ex:x")
    d.delegation("ex:undeclared1", "ex:undeclared2")
    d.start("ex:a", None, "ex:starter")                             # second argument missing: no edge
    yield "shared-identifier+undeclared", d
    # relations of different kinds sharing one identifier between the same ordered pair of nodes (unified() keeps both:
    # it merges per kind), next to relations with distinct identifiers and an anonymous one (seed C14-E)
    d = ProvDocument()
    d.add_namespace("ex", "http://example.org/")
    d.activity("ex:a")
    d.entity("ex:e")
    d.entity("ex:e2")
    d.start("ex:a", "ex:e", identifier="ex:r")
    d.end("ex:a", "ex:e", identifier="ex:r")
    d.derivation("ex:e2", "ex:e", identifier="ex:r2")
    d.influence("ex:e2", "ex:e", identifier="ex:r2")
    d.specialization("ex:e2", "ex:e")
    d.alternate("ex:e2", "ex:e")
    yield "kinds-sharing-an-identifier", d
    # every relation kind as a self-loop on an identifier declared nowhere, followed by a second relation naming it
    from prov.model import PROV_REC_CLS
    for kind, cls in sorted(PROV_REC_CLS.items(), key=lambda kv: kv[0].uri):
        if not issubclass(cls, ProvRelation) or len(cls.FORMAL_ATTRIBUTES) < 2:
            continue
        d = ProvDocument()
        d.add_namespace("ex", "http://example.org/")
        a1, a2 = cls.FORMAL_ATTRIBUTES[:2]
        d.new_record(kind, None, {a1: "ex:ghost", a2: "ex:ghost"})
        d.new_record(kind, "ex:second", {a1: "ex:ghost", a2: "ex:other"})
        d.new_record(kind, None, {a1: "ex:other", a2: "ex:ghost"})
        yield "undeclared-self-loop:" + kind.localpart, d


def check(name, d):
    v = []
    u = d.unified()
    before = common.strict(d)
    g = prov_to_graph(d)
    elements = list(u.get_records(ProvElement))
    declared = {e.identifier.uri for e in elements}
    relations = list(u.get_records(ProvRelation))
    want_edges = Counter()
    inferred = set()
    kept_relations = []
    dont_care = set()                    # influence relations with an undeclared endpoint: outside the property
    for r in relations:
        (a1, q1), (a2, q2) = r.formal_attributes[:2]
        if q1 is None or q2 is None:
            continue
        undeclared = [q for q in (q1, q2) if q.uri not in declared]
        if r.get_type() == PROV_INFLUENCE and undeclared:
            dont_care.add(common.rkey(r))    # documented exception: node kind cannot be inferred (drawn or not, depending on what else names the node)
            continue
        for q in undeclared:
            inferred.add(q.uri)
        want_edges[(q1.uri, q2.uri, common.rkey(r))] += 1
        kept_relations.append(r)
    # nodes
    nodes = list(g.nodes())
    got_declared = Counter(common.rkey(n) for n in nodes if isinstance(n, ProvRecord) and n.bundle is not None)
    if got_declared != Counter(common.rkey(e) for e in elements):
        v.append(("one-node-per-element", "%s: nodes for declared elements differ from the unified document's elements (%d vs %d)" % (name, sum(got_declared.values()), len(elements))))
    got_inferred = Counter(n.identifier.uri for n in nodes if not (isinstance(n, ProvRecord) and n.bundle is not None))
    if set(got_inferred) != inferred or any(c != 1 for c in got_inferred.values()):
        v.append(("one-inferred-node-per-undeclared-endpoint", "%s: inferred nodes %s, expected %s" % (name, sorted(got_inferred.items())[:4], sorted(inferred)[:4])))
    # edges
    got_edges = Counter()
    for n1, n2, data in g.edges(data=True):
        rel = data.get("relation")
        if isinstance(rel, ProvRecord) and common.rkey(rel) in dont_care:
            continue
        got_edges[(n1.identifier.uri, n2.identifier.uri, common.rkey(rel) if isinstance(rel, ProvRecord) else None)] += 1
    if got_edges != want_edges:
        v.append(("one-edge-per-relation", "%s: %d edges, %d relations with both ends; missing %s extra %s" % (
            name, sum(got_edges.values()), sum(want_edges.values()), [k[:2] for k in (want_edges - got_edges)][:2], [k[:2] for k in (got_edges - want_edges)][:2])))
    # back
    back = graph_to_prov(g)
    want_back = Counter(common.rkey(e) for e in elements) + Counter(common.rkey(r) for r in kept_relations)
    got_back = Counter(common.rkey(r) for r in back.get_records() if common.rkey(r) not in dont_care)
    if got_back != want_back or list(back.bundles):
        v.append(("converts-back", "%s: graph_to_prov returns %d records, expected %d (elements + relations with an edge)" % (name, sum(got_back.values()), sum(want_back.values()))))
    if common.strict(d) != before:
        v.append(("source-unchanged", "%s: conversion changed the document" % name))
    return v


def main():
    ap = argparse.ArgumentParser()
    ap.add_argument("--search", action="store_true")
    ap.add_argument("--replay")
    ap.add_argument("--tier", default="quick")
    ap.add_argument("--seed", type=int, default=0)
    ap.add_argument("--out")
    a = ap.parse_args()
    from roundtrip import load_kf
    kfs = load_kf("C14")
    failures = {}
    n = 0
    count = 1500 if a.tier == "thorough" else 300
    feats = common.Gen.ALL - {"bundle", "bundle-default-ns", "clash", "unregistered-datatype", "odd-prefix"}
    cases = list(hand_built()) + [("generated#%d" % i, d) for i, d in common.documents(a.seed + 14, count, feats, max_records=7)]
    distinct = set()
    for name, d in cases:
        n += 1
        try:
            distinct.add(repr(common.strict(d)))
            try:
                d.unified()
            except Exception:  # noqa: no unified form (conflicting statements under one identifier, C08): outside C14
                continue
            v = check(name, d)
        except Exception as e:  # noqa
            v = [("no-unexpected-exception", "%s: raised %r" % (name, e))]
        for clause, what in v:
            kf = None
            for kid, keys, feat in kfs:
                if clause in keys or "*" in keys:
                    kf = kid
            failures.setdefault(clause, {"key": clause, "kf": kf, "clauses": [clause], "what": what, "history": [name], "provn": common.describe(d)[:1500]})
    if a.replay:
        info = json.load(open(a.replay))
        print("obligation:", info.get("obligation"))
        bad = [f for f in failures.values() if not f["kf"]]
        for f in bad:
            print("still failing:", f["what"])
        return 1 if bad else 0
    res = {"evaluations": n, "distinct": len(distinct), "samples": [cases[0][0], cases[3][0]],
           "rule": "3 hand-built shapes + one undeclared self-loop shape per relation kind + %d bundle-free generated documents of <= 7 records (C01 generator); oracle computed from unified()" % count,
           "failures_found": len(failures), "failures": list(failures.values())}
    if a.out:
        json.dump(res, open(a.out, "w"), indent=1)
    print("C14 native battery: %d documents, %d failing clauses" % (n, len(failures)))
    for f in failures.values():
        print("  ", "[%s]" % (f["kf"] or "NEW"), f["key"], "|", f["what"][:220])
    return 1 if [f for f in failures.values() if not f["kf"]] else 0


if __name__ == "__main__":
    sys.exit(main())
