#!/usr/bin/env python
"""Native battery for C15 (DOT output is always valid Graphviz: one node per element, one path per relation).
Bounded.

Each generated document (C01 generator; labels, attribute values and - feature 'odd-identifier' - identifier
local parts containing quotes, angle brackets, ampersands, backslashes, newlines and non-ASCII text) is drawn
with option combinations of show_nary x use_labels x show_element_attributes x show_relation_attributes x
direction in {BT, TB, LR, RL, invalid}; the DOT text is given to Graphviz (`dot -Tjson`), which must accept it
without error, and the parsed graph is compared with the unified document: one node per element record inside
its bundle's cluster (URL = identifier URI), a node for every merely referenced name, one edge path per relation
with two endpoints (direct, or through one blank point node), annotation tables with one row per non-reference
attribute when enabled."""
import argparse
import html
import itertools
import json
import os
import re
import subprocess
import sys
from collections import Counter

sys.path.insert(0, os.path.dirname(os.path.abspath(__file__)))
import common  # noqa: E402
from prov.model import ProvDocument, ProvException, Literal  # noqa: E402
from prov.identifier import Namespace  # noqa: E402
from prov.dot import prov_to_dot  # noqa: E402
from prov.constants import PROV_ATTRIBUTE_QNAMES  # noqa: E402

OPTIONS = [dict(show_nary=sn, use_labels=ul, show_element_attributes=ea, show_relation_attributes=ra, direction=dr)
           for sn, ul, ea, ra in itertools.product((True, False), repeat=4) for dr in ("BT",)] + \
          [dict(show_nary=True, use_labels=True, show_element_attributes=True, show_relation_attributes=True, direction=dr) for dr in ("TB", "LR", "RL", "sideways")]

ODD = ['we"ird', "a<b", "r&d", "back\\slash", "café"]


def graphviz(text):
    p = subprocess.run(["dot", "-Tjson"], input=text.encode("utf-8"), capture_output=True, timeout=60)
    err = p.stderr.decode("utf-8", "replace")
    if p.returncode != 0 or "Error" in err or "syntax error" in err:
        return None, err.strip()[:300]
    return json.loads(p.stdout.decode("utf-8")), err


def unq(s):
    return html.unescape(s) if isinstance(s, str) else s


def esc_string(s):
    """value of a Graphviz escString attribute (URL, label) as it is rendered: '\\\\' stands for one backslash"""
    return s.replace("\\\\", "\\") if isinstance(s, str) else s


def check(d, opts, key):
    v = []
    try:
        u = d.unified()
    except ProvException:
        u = d
    text = prov_to_dot(d, **opts).to_string()
    g, err = graphviz(text)
    if g is None:
        return [("graphviz-accepts", "%s: Graphviz rejects the DOT text: %s" % (key, err))], text
    objs = g.get("objects", [])
    nodes = {o["_gvid"]: o for o in objs if "nodes" not in o and "subgraphs" not in o and not o.get("name", "").startswith("cluster")}
    clusters = [o for o in objs if o.get("name", "").startswith("cluster")]
    in_cluster = {}
    for c in clusters:
        for nid in c.get("nodes", []):
            in_cluster[nid] = c
    edges = g.get("edges", [])
    # ---- nodes per bundle
    containers = [(None, u)] + [(b.identifier.uri, b) for b in u.bundles]
    for buri, c in containers:
        want = Counter(r.identifier.uri for r in c.get_records() if r.is_element())
        got = Counter()
        for nid, o in nodes.items():
            url = esc_string(o.get("URL"))
            cl = in_cluster.get(nid)
            cl_uri = esc_string(cl.get("URL")) if cl is not None else None
            # (the document level is not a cluster: Graphviz lists a document-level node in every cluster whose
            # edges mention it, so for the document the node may be anywhere)
            if url is not None and (buri is None or cl_uri == buri) and o.get("shape") != "point" and not o.get("name", "").startswith("ann"):
                got[url] += 1
        # element nodes: at least the declared ones; generic nodes for referenced names share the URL space
        for uri, k in want.items():
            if got.get(uri, 0) < k:
                v.append(("one-node-per-element", "%s: element <%s> of %s drawn %d times, expected %d" % (key, uri, buri or "the document", got.get(uri, 0), k)))
                break
    # ---- relations
    url_of = {nid: esc_string(o.get("URL")) for nid, o in nodes.items()}
    point = {nid for nid, o in nodes.items() if o.get("shape") == "point"}
    direct = Counter()
    into_b, out_b = {}, {}
    for e in edges:
        t, h = e["tail"], e["head"]
        if t in nodes and nodes[t].get("name", "").startswith("ann"):
            continue
        if t in point and h not in point:
            if not e.get("label"):           # the labelled edges leaving a blank node are the extra (n-ary) arguments
                out_b.setdefault(t, []).append(h)
        elif h in point and t not in point:
            into_b.setdefault(h, []).append(t)
        elif t not in point and h not in point:
            direct[(url_of.get(t), url_of.get(h))] += 1
    paths = Counter(direct)
    for b, tails in into_b.items():
        heads = [h for h in out_b.get(b, [])]
        if tails and heads:
            paths[(url_of.get(tails[0]), url_of.get(heads[0]))] += 1
    want_paths = Counter()
    for buri, c in containers:
        for r in c.get_records():
            if r.is_element():
                continue
            refs = [val for name, val in r.formal_attributes if name in PROV_ATTRIBUTE_QNAMES]
            if len(refs) >= 2 and refs[0] is not None and refs[1] is not None:
                want_paths[(refs[0].uri, refs[1].uri)] += 1
    if paths != want_paths:
        miss = list((want_paths - paths).items())[:2]
        extra = list((paths - want_paths).items())[:2]
        v.append(("one-path-per-relation", "%s: relation paths differ: missing %s, unexpected %s" % (key, miss, extra)))
    # ---- annotations
    anns = [o for o in nodes.values() if o.get("name", "").startswith("ann")]
    want_rows = 0
    for buri, c in containers:
        for r in c.get_records():
            shown = (r.is_element() and opts["show_element_attributes"]) or (not r.is_element() and opts["show_relation_attributes"])
            if not shown:
                continue
            if not r.is_element():
                refs = [val for name, val in r.formal_attributes if name in PROV_ATTRIBUTE_QNAMES]
                if len(refs) < 2:
                    continue
            want_rows += sum(1 for a, val in r.attributes if a not in PROV_ATTRIBUTE_QNAMES)
    got_rows = sum(len(re.findall(r"<TR>", o.get("label", ""), flags=re.I)) for o in anns)
    framing = 0
    if (got_rows - framing) != want_rows and (opts["show_element_attributes"] or opts["show_relation_attributes"]):
        v.append(("annotations-complete", "%s: %d attribute rows drawn, %d non-reference attributes to show" % (key, got_rows - framing, want_rows)))
    return v, text


def add_odd(d, rng_i):
    ns = Namespace("odd", "http://odd.example/")
    d.add_namespace(ns)
    local = ODD[rng_i % len(ODD)]
    d.entity(ns[local], {"prov:label": 'label with <b>markup</b> & "quotes"\nand a new line \\ backslash', ns["attr"]: local, "prov:type": ns[local]})
    d.activity(ns["act"], None, None, {"prov:label": Literal("läbel <i>", langtag="de")})
    d.usage(ns["act"], ns[local], None, None, {"prov:role": "r<o>le & \"q\""})
    return d


def hand_built():
    """the same identifier declared at document level and in two bundles, and referenced in one bundle before it
    is declared in the next"""
    d = ProvDocument()
    d.add_namespace("ex", "http://example.org/")
    d.entity("ex:report", {"ex:where": "document"})
    d.activity("ex:write")
    b1 = d.bundle("ex:b1")
    b1.entity("ex:report", {"ex:where": "bundle 1"})
    b1.generation("ex:report", "ex:later")           # ex:later is only referenced here
    b2 = d.bundle("ex:b2")
    b2.entity("ex:report", {"ex:where": "bundle 2"})
    b2.activity("ex:later", None, None, {"ex:where": "bundle 2"})
    b2.usage("ex:later", "ex:report")
    return d


def main():
    ap = argparse.ArgumentParser()
    ap.add_argument("--search", action="store_true")
    ap.add_argument("--replay")
    ap.add_argument("--tier", default="quick")
    ap.add_argument("--seed", type=int, default=0)
    ap.add_argument("--out")
    a = ap.parse_args()
    from roundtrip import load_kf
    kfs = load_kf("C15")
    failures = {}
    n = 0
    count = 200 if a.tier == "thorough" else 40
    feats = common.Gen.ALL - {"unregistered-datatype", "odd-prefix"}
    def all_documents():
        yield "hand-built", hand_built()
        for i_, d_ in common.documents(a.seed + 15, count, feats, max_records=4):
            yield i_, d_

    for i, d in all_documents():
        if i == "hand-built":
            for opts in (OPTIONS[0], OPTIONS[5], OPTIONS[-1]):
                n += 1
                key = "hand-built/%s" % ",".join("%s=%s" % (k[:9], v_) for k, v_ in opts.items())
                try:
                    v, text = check(d, opts, key)
                except Exception as e:  # noqa
                    v, text = [("no-unexpected-exception", "%s: raised %r" % (key, e))], ""
                for clause, what in v:
                    failures.setdefault(clause + ":shared-identifier", {"key": clause + ":shared-identifier", "kf": None, "clauses": [clause], "what": what, "history": [key], "dot": text[:3000]})
            continue
        odd = (i % 3 == 0)
        if odd:
            add_odd(d, i // 3)
        for j, opts in enumerate(OPTIONS):
            if a.tier != "thorough" and (i + j) % 4:
                continue                     # a quarter of the option grid per document in quick runs
            n += 1
            key = "generated#%d%s/%s" % (i, "+odd" if odd else "", ",".join("%s=%s" % (k[:9], v_) for k, v_ in opts.items()))
            try:
                v, text = check(d, opts, key)
            except Exception as e:  # noqa
                v, text = [("no-unexpected-exception", "%s: raised %r" % (key, e))], ""
            for clause, what in v:
                cls = clause + (":odd-characters" if odd else "") + (":use_labels" if opts["use_labels"] else "")
                kf = None
                for kid, keys, feat in kfs:
                    if any((cls.startswith(k_[:-1]) if k_.endswith("*") else cls == k_) for k_ in keys):
                        kf = kid
                failures.setdefault(cls, {"key": cls, "kf": kf, "clauses": [clause], "what": what, "history": [key], "dot": text[:3000]})
    if a.replay:
        info = json.load(open(a.replay))
        print("obligation:", info.get("obligation"))
        bad = [f for f in failures.values() if not f["kf"]]
        for f in bad:
            print("still failing:", f["what"])
        return 1 if bad else 0
    res = {"evaluations": n, "distinct": n, "samples": ["generated#0+odd/show_nary=True,use_label=True,...", "generated#1/..."],
           "rule": "%d generated documents (every third with identifier/label/value texts full of DOT and HTML syntax characters) x option combinations (16 boolean combinations + 4 directions incl. an invalid one; a quarter of the grid per document in quick runs); each DOT text parsed by Graphviz (dot -Tjson)" % count,
           "failures_found": len(failures), "failures": list(failures.values())}
    if a.out:
        json.dump(res, open(a.out, "w"), indent=1)
    print("C15 native battery: %d (document, options) cases, %d failure classes" % (n, len(failures)))
    for f in failures.values():
        print("  ", "[%s]" % (f["kf"] or "NEW"), f["key"], "|", f["what"][:260])
    return 1 if [f for f in failures.values() if not f["kf"]] else 0


if __name__ == "__main__":
    sys.exit(main())
