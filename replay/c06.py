#!/usr/bin/env python
"""Native battery for C06 (PROV-N output is well-formed and denotes the same document).  Bounded.
The reader in replay/provn_reader.py is written from the PROV-N recommendation and shares no code with the library."""
import os
import sys

sys.path.insert(0, os.path.dirname(os.path.abspath(__file__)))
import common  # noqa: E402
import provn_reader  # noqa: E402
import roundtrip  # noqa: E402

if __name__ == "__main__":
    # C06: name local parts need no PROV-N escaping (no full-URI attribute names, whose compaction may contain anything)
    sys.exit(roundtrip.run("C06", "provn", common.Gen.ALL - {"full-uri-name"}, reader=provn_reader.read_provn, label="independent PROV-N reader", history=True))
