#!/usr/bin/env python
"""Native battery for C10 (emitted PROV-JSON and PROV-XML mean the same to an independent reader).  Bounded.
The readers in replay/indep.py are written from the specifications and share no code with the library."""
import os
import sys

sys.path.insert(0, os.path.dirname(os.path.abspath(__file__)))
import common  # noqa: E402
import indep  # noqa: E402
import roundtrip  # noqa: E402

if __name__ == "__main__":
    argv = sys.argv[1:]
    rc1 = roundtrip.run("C10", "json", None, argv=[x for x in argv if not x.startswith("--out")] + (["--out", argv[argv.index("--out") + 1] + ".json.part"] if "--out" in argv else []),
                        reader=indep.read_json, label="independent reader")
    rc2 = roundtrip.run("C10", "xml", common.Gen.ALL - {"full-uri-name", "cr"},
                        argv=[x for x in argv if not x.startswith("--out")] + (["--out", argv[argv.index("--out") + 1] + ".xml.part"] if "--out" in argv else []),
                        reader=indep.read_xml, label="independent reader")
    if "--out" in argv:
        import json
        out = argv[argv.index("--out") + 1]
        a, b = json.load(open(out + ".json.part")), json.load(open(out + ".xml.part"))
        os.remove(out + ".json.part"); os.remove(out + ".xml.part")
        res = {"evaluations": a["evaluations"] + b["evaluations"], "distinct": a["distinct"] + b["distinct"], "samples": a["samples"][:2] + b["samples"][:2],
               "rule": "JSON: " + a["rule"] + " | XML: " + b["rule"] + " | read by the independent readers of replay/indep.py",
               "failures_found": a["failures_found"] + b["failures_found"], "failures": a["failures"] + b["failures"]}
        json.dump(res, open(out, "w"), indent=1)
    sys.exit(1 if (rc1 or rc2) else 0)
