#!/usr/bin/env python
"""Native replay / small-scope search for C18 (identifier lookup and typed listing agree with the record list).
Replay step of the contract check; never proof.

Scope: containers filled through every record-adding path (factory methods, new_record, add_record, update,
add_bundle of a document, constructor records, unified, flattened, JSON/XML deserialisation), identifiers
repeated, anonymous relations, subclass records (mention/specialization); lookups by QualifiedName under
another prefix, 'prefix:local' text, bare local name (default namespace) and full URI; get_records for every
record class; independence of `records`."""
import argparse
import io
import itertools
import json
import os
import sys

sys.path.insert(0, os.path.dirname(os.path.abspath(__file__)))
import prov.model as pm
from prov.model import ProvDocument, ProvBundle, ProvRecord, PROV_REC_CLS
from prov.identifier import Namespace, QualifiedName

EX = "http://example.org/"


def fill(b, variant):
    b.add_namespace("ex", EX)
    b.set_default_namespace("http://default.org/")
    b.entity("ex:e1", {"ex:a": 1})
    b.entity("ex:e1", {"ex:b": 2})          # repeated identifier
    b.activity("ex:a1")
    b.agent("ex:e1")                        # same identifier, other kind
    b.entity("local")                       # default namespace
    b.generation("ex:e1", "ex:a1")          # anonymous
    b.generation("ex:e1", "ex:a1", identifier="ex:g1")
    b.specialization("ex:e1", "ex:e2")
    b.mention("ex:e1", "ex:e2", "ex:bb")
    if variant:
        b.usage("ex:a1", "ex:e1", identifier="ex:e1")  # relation sharing an element's identifier


def containers():
    """yields (name, container)"""
    d = ProvDocument(); fill(d, 1)
    yield "factories", d
    d2 = ProvDocument(); fill(d2, 0)
    t = ProvDocument(); t.add_namespace("other", EX); t.entity("other:e1", {"other:c": 3})
    t.update(d2)
    yield "document.update", t
    b1 = ProvBundle(identifier=None); fill(b1, 0)
    b2 = ProvBundle(); b2.add_namespace("ex", EX); b2.entity("ex:e1"); b2.update(b1)
    yield "bundle.update", b2
    src = ProvDocument(); fill(src, 1)
    host = ProvDocument(); host.add_namespace("ex", EX)
    host.add_bundle(src, "ex:bundle1")
    yield "add_bundle(document)", list(host.bundles)[0]
    yield "constructor-records", ProvDocument(records=src.get_records())
    yield "unified", src.unified()
    wb = ProvDocument(); wb.add_namespace("ex", EX); wb.entity("ex:top"); bb = wb.bundle("ex:b"); fill(bb, 0)
    yield "flattened", wb.flattened()
    yield "bundle()", bb
    for fmt in ("json", "xml"):
        dd = ProvDocument(); dd.add_namespace("ex", EX); dd.entity("ex:e1", {"ex:a": 1}); dd.entity("ex:e1"); dd.activity("ex:a1")
        dd.generation("ex:e1", "ex:a1", identifier="ex:g1")
        yield "deserialize-" + fmt, ProvDocument.deserialize(content=dd.serialize(format=fmt), format=fmt)
    # merged same-named bundles through ProvDocument.update
    x = ProvDocument(); x.add_namespace("ex", EX); xb = x.bundle("ex:b"); xb.entity("ex:e1", {"ex:k": 1})
    y = ProvDocument(); y.add_namespace("ex", EX); yb = y.bundle("ex:b"); yb.entity("ex:e1", {"ex:k": 2}); yb.entity("ex:e9")
    x.update(y)
    yield "document.update-merged-bundle", list(x.bundles)[0]


def check(name, c):
    v = []
    recs = list(c._records)
    pub = c.records
    if [id(r) for r in pub] != [id(r) for r in recs]:
        v.append(("all-records-in-order", "%s: records differs from the record list" % name))
    pub.append("junk")
    if len(c.records) != len(recs):
        v.append(("no-leak", "%s: mutating the list returned by records changed the container" % name))
    uris = {r.identifier.uri for r in recs if r.identifier is not None} | {EX + "absent"}
    for u in sorted(uris):
        want = [r for r in recs if r.identifier is not None and r.identifier.uri == u]
        spellings = [("full-uri", u)]
        if u.startswith(EX):
            spellings += [("text", "ex:" + u[len(EX):]), ("qname-other-prefix", QualifiedName(Namespace("zz", EX), u[len(EX):]))]
        dn = c.get_default_namespace()
        if dn is not None and u.startswith(dn.uri):
            spellings += [("bare-local", u[len(dn.uri):])]
        for how, x in spellings:
            try:
                got = c.get_record(x)
            except Exception as e:  # noqa
                v.append(("lookup", "%s: get_record(%s %r) raised %r" % (name, how, x, e)))
                continue
            got = list(got) if got is not None else []
            if [id(r) for r in got] != [id(r) for r in want]:
                scopes = [c] + ([c.document] if getattr(c, "document", None) is not None else [])
                covered = any(u.startswith(ns.uri) for sc in scopes for ns in list(sc.namespaces) + ([sc.get_default_namespace()] if sc.get_default_namespace() else []))
                clause = "lookup" if covered or how != "full-uri" else "lookup-full-uri-in-undeclared-namespace"
                v.append((clause, "%s: get_record(%s %r) returned %d records, expected %d" % (name, how, str(x), len(got), len(want))))
    # bare local names always mean <current default namespace> + name (also names that used to resolve otherwise)
    dn = c.get_default_namespace()
    for local in ("local", "late_local", "absent_local"):
        want = [r for r in recs if dn is not None and r.identifier is not None and r.identifier.uri == dn.uri + local]
        try:
            got = c.get_record(local)
        except Exception as e:  # noqa
            v.append(("lookup", "%s: get_record(bare-local %r) raised %r" % (name, local, e)))
            continue
        got = list(got) if got is not None else []
        if [id(r) for r in got] != [id(r) for r in want]:
            v.append(("lookup", "%s: get_record(bare-local %r) returned %d records, expected %d (default namespace %s)" % (name, local, len(got), len(want), dn.uri if dn else None)))
    if c.get_record(None) is not None:
        v.append(("none-for-none", "%s: get_record(None) is not None" % name))
    classes = [getattr(pm, n) for n in dir(pm) if isinstance(getattr(pm, n), type) and issubclass(getattr(pm, n), ProvRecord)]
    for cls in classes:
        got = list(c.get_records(cls))
        want = [r for r in recs if isinstance(r, cls)]
        if [id(r) for r in got] != [id(r) for r in want]:
            v.append(("instances-in-order", "%s: get_records(%s) returned %d records, expected %d" % (name, cls.__name__, len(got), len(want))))
    if [id(r) for r in c.get_records()] != [id(r) for r in recs]:
        v.append(("all-records", "%s: get_records() differs from the record list" % name))
    return v


def main():
    ap = argparse.ArgumentParser()
    ap.add_argument("--search", action="store_true")
    ap.add_argument("--replay")
    ap.add_argument("--tier", default="quick")
    ap.add_argument("--seed", type=int, default=0)
    ap.add_argument("--out")
    a = ap.parse_args()
    failures = {}
    n = 0
    from roundtrip import load_kf
    kfs = load_kf("C18")
    for name, c in containers():
        n += 1
        try:
            v = check(name, c)
        except Exception as e:  # noqa
            v = [("no-unexpected-exception", "%s: %r" % (name, e))]
        # a later chapter: the default namespace is re-declared, a prefix is added, records are added under the new
        # default; every lookup is repeated (the answers of the first round must not be remembered)
        try:
            c.set_default_namespace("http://default2.org/")
            c.add_namespace("later", "http://later.org/")
            c.entity("late_local")
            c.entity("later:x")
            v += check(name + "/after-namespace-change", c)
            c.set_default_namespace("http://default.org/")
            v += check(name + "/default-namespace-restored", c)
        except Exception as e:  # noqa
            v.append(("no-unexpected-exception", "%s: %r" % (name, e)))
        for clause, what in v:
            alias = {"lookup": ["by-qualified-name", "by-prefixed-text", "by-full-uri", "by-local-name", "index", "lookup"],
                     "no-leak": ["no-leak", "all-records-in-order"]}
            kf = None
            for kid, keys, feat in kfs:
                if clause in keys:
                    kf = kid
            failures.setdefault(clause, {"key": clause, "kf": kf, "clauses": alias.get(clause, [clause]), "what": what, "history": [name]})
    if a.replay:
        info = json.load(open(a.replay))
        print("obligation:", info.get("obligation"))
        bad = [f for f in failures.values() if not f["kf"]]
        for f in bad:
            print("still failing:", f["what"])
        return 1 if bad else 0
    res = {"evaluations": n, "distinct": n, "rule": "one container per record-adding path; every identifier URI in every spelling; every record class; repeated after re-declaring the default namespace, adding a prefix and records, and after restoring the default namespace",
           "failures_found": len(failures), "failures": list(failures.values())}
    if a.out:
        json.dump(res, open(a.out, "w"), indent=1)
    print("C18 native battery: %d containers, %d failing clauses" % (n, len(failures)))
    for f in failures.values():
        print("  ", "[%s]" % (f["kf"] or "NEW"), f["clauses"][:2], f["what"][:200])
    return 1 if [f for f in failures.values() if not f["kf"]] else 0


if __name__ == "__main__":
    sys.exit(main())
