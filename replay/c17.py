#!/usr/bin/env python
"""Native battery for C17 (writing to a file path is exact and all-or-nothing).  Bounded.

Exactness: for every format and a list of local file names (relative, absolute, with spaces, non-ASCII, and
characters that are URL syntax: '#', '?', ';', ':', '%41'), serialize(destination=name) must create exactly that
file, holding the complete serialisation, and no other file in the directory.
All-or-nothing: with a failure injected at the k-th write call of the underlying stream (k = 1, 2, ... until the
write succeeds) and at the final move, with and without a pre-existing destination file, the named file keeps
its previous content in full (or stays absent)."""
import argparse
import io
import json
import os
import shutil
import sys
import tempfile

sys.path.insert(0, os.path.dirname(os.path.abspath(__file__)))
import common  # noqa: E402
import prov.model as pm  # noqa: E402
from prov.model import ProvDocument  # noqa: E402

NAMES = ["plain.out", "with space.out", "nonascii-é中.out", "hash#frag.out", "query?x=1.out", "semi;colon.out", "colon:name.out",
         "percent%41.out", "a:b:c.out", "sub/dir file.out", "#leading", "?leading", "trailing#"]
FORMATS = ["json", "xml", "rdf", "provn"]


class Injected(Exception):
    pass


class FailingStream:
    """file object failing at the k-th write"""
    def __init__(self, real, k):
        self.real, self.k, self.n = real, k, 0

    def write(self, data):
        self.n += 1
        if self.n == self.k:
            raise Injected("write %d" % self.n)
        return self.real.write(data)

    def __getattr__(self, name):
        return getattr(self.real, name)


def listing(root):
    out = {}
    for dp, dn, fn in os.walk(root):
        for f in fn:
            p = os.path.join(dp, f)
            out[os.path.relpath(p, root)] = open(p, "rb").read()
    return out


def main():
    ap = argparse.ArgumentParser()
    ap.add_argument("--search", action="store_true")
    ap.add_argument("--replay")
    ap.add_argument("--tier", default="quick")
    ap.add_argument("--seed", type=int, default=0)
    ap.add_argument("--out")
    a = ap.parse_args()
    from roundtrip import load_kf
    kfs = load_kf("C17")
    failures = {}
    n = 0

    def fail(clause, cls, what):
        kf = None
        for kid, keys, feat in kfs:
            if any((cls.startswith(k_[:-1]) if k_.endswith("*") else cls == k_) for k_ in keys):
                kf = kid
        failures.setdefault((clause, cls), {"key": "%s|%s" % (clause, cls), "kf": kf, "clauses": [clause], "what": what, "history": [cls]})

    docs = [d for _, d in common.documents(a.seed + 5, 3 if a.tier != "thorough" else 10, {"str-special", "lang", "qname-object", "repeat-id", "formal-optional"}, max_records=3)]
    root = tempfile.mkdtemp(prefix="c17_", dir="/var/tmp")
    cwd = os.getcwd()
    # the library's temporary files (left behind when a write fails) go into a directory of this run
    old_tempdir = tempfile.tempdir
    os.makedirs(os.path.join(root, "tmp"))
    tempfile.tempdir = os.path.join(root, "tmp")
    try:
        # ---- exactness
        for fmt in FORMATS:
            for name in NAMES:
                for mode in ("absolute", "relative"):
                    n += 1
                    work = tempfile.mkdtemp(prefix="w", dir=root)
                    os.makedirs(os.path.join(work, "sub"), exist_ok=True)
                    os.chdir(work)
                    d = docs[n % len(docs)]
                    want = d.serialize(format=fmt)
                    dest = os.path.join(work, name) if mode == "absolute" else name
                    try:
                        d.serialize(dest, format=fmt)
                        got = listing(work)
                        if fmt == "rdf":
                            ok = list(got) == [name] and len(got[name]) > 0
                        elif fmt == "xml":
                            ok = list(got) == [name] and got[name].strip() != b""
                        else:
                            ok = got == {name: want.encode("utf-8")}
                        if not ok:
                            cls = "name:" + "".join(ch for ch in name if ch in "#?;:% ") or "plain"
                            fail("exact-file", cls, "serialize(%r, format=%s) [%s]: files now in the directory: %s" % (dest, fmt, mode, sorted(got)))
                    except Exception as e:  # noqa
                        fail("exact-file", "raises:%s:%s" % (type(e).__name__, "".join(ch for ch in name if ch in "#?;:% ")), "serialize(%r, format=%s) raised %r" % (dest, fmt, e))
                    finally:
                        os.chdir(cwd)
                        shutil.rmtree(work, ignore_errors=True)
        # ---- all-or-nothing
        real_fdopen, real_move = os.fdopen, shutil.move
        for fmt in FORMATS:
            for existing in (None, b"PREVIOUS CONTENT\n" * 50):
                work = tempfile.mkdtemp(prefix="w", dir=root)
                dest = os.path.join(work, "target.out")
                d = docs[0]
                k = 0
                while True:
                    k += 1
                    n += 1
                    if existing is not None:
                        open(dest, "wb").write(existing)
                    elif os.path.exists(dest):
                        os.remove(dest)
                    state = {"failed": False}

                    real_get = pm.serializers.get

                    def fake_get(f, k=k, real_get=real_get):
                        cls = real_get(f)

                        class Failing(cls):
                            # the serializer writes through a stream that fails at the k-th write call,
                            # whatever stream the library hands it (temporary file or the destination itself)
                            def serialize(self, stream, **kw):
                                return cls.serialize(self, FailingStream(stream, k), **kw)
                        return Failing

                    pm.serializers.get = fake_get
                    try:
                        d.serialize(dest, format=fmt)
                    except Injected:
                        state["failed"] = True
                    except Exception as e:  # noqa
                        state["failed"] = True
                    finally:
                        pm.serializers.get = real_get
                    now = open(dest, "rb").read() if os.path.exists(dest) else None
                    if state["failed"]:
                        if now != existing:
                            fail("all-or-nothing", "write-failure:%s" % ("existing" if existing is not None else "absent"),
                                 "%s: failure at write call %d left the destination %s" % (fmt, k, "truncated/changed" if now is not None else "removed"))
                    else:
                        break                 # k exceeded the number of write calls: the write went through
                    if k > 200:
                        break
                # failure of the final move
                n += 1
                if existing is not None:
                    open(dest, "wb").write(existing)
                elif os.path.exists(dest):
                    os.remove(dest)

                def fake_move(src, dst, *args, **kw):
                    raise Injected("move")

                pm.shutil.move = fake_move
                try:
                    d.serialize(dest, format=fmt)
                except Exception:  # noqa
                    pass
                finally:
                    pm.shutil.move = real_move
                now = open(dest, "rb").read() if os.path.exists(dest) else None
                if now != existing:
                    fail("all-or-nothing", "move-failure", "%s: a failing final move left the destination changed" % fmt)
                shutil.rmtree(work, ignore_errors=True)
    finally:
        os.chdir(cwd)
        pm.os.fdopen, pm.shutil.move = os.fdopen, shutil.move
        tempfile.tempdir = old_tempdir
        shutil.rmtree(root, ignore_errors=True)
    if a.replay:
        info = json.load(open(a.replay))
        print("obligation:", info.get("obligation"))
        bad = [f for f in failures.values() if not f["kf"]]
        for f in bad:
            print("still failing:", f["what"])
        return 1 if bad else 0
    res = {"evaluations": n, "distinct": n, "samples": ["exact-file: json 'hash#frag.out' absolute", "all-or-nothing: xml, existing destination, failure at write call 1"],
           "rule": "%d file names x 4 formats x {absolute, relative}; failure injected at every write call and at the final move x 4 formats x {existing, absent} destination" % len(NAMES),
           "failures_found": len(failures), "failures": list(failures.values())}
    if a.out:
        json.dump(res, open(a.out, "w"), indent=1)
    print("C17 native battery: %d cases, %d failure classes" % (n, len(failures)))
    for f in failures.values():
        print("  ", "[%s]" % (f["kf"] or "NEW"), f["key"], "|", f["what"][:220])
    return 1 if [f for f in failures.values() if not f["kf"]] else 0


if __name__ == "__main__":
    sys.exit(main())
