#!/usr/bin/env python
"""Native replay / small-scope search for C04 (equality is an equivalence that coincides with content
equivalence).  Runs against the real prov package; replay step of the contract check, never proof.

Scope: documents built from a pool of ~14 record recipes (entities, activities, agents, identified and
anonymous relations, same content under another prefix, one changed attribute value / formal argument /
identifier / record type), 0..2 bundles; all ordered pairs and sampled triples.
Oracle: an independent content key (type URI, identifier URI, set of (attribute URI, value key))."""
import argparse
import datetime
import itertools
import json
import random
import sys

from prov.model import ProvDocument, Literal, ProvRecord
from prov.identifier import Identifier, QualifiedName, Namespace
from prov.constants import XSD_INT

EX = "http://example.org/"


def vkey(v):
    if isinstance(v, bool):
        return ("num", int(v))
    if isinstance(v, int):
        return ("num", v)
    if isinstance(v, float):
        return ("flt", v)
    if isinstance(v, Literal):
        return ("lit", v.value, v.datatype.uri if v.datatype is not None else None, v.langtag)
    if isinstance(v, Identifier):
        return ("uri", v.uri)
    if isinstance(v, datetime.datetime):
        return ("dt", v.isoformat())
    return ("str", v)


def rkey(r):
    return (r.get_type().uri, r.identifier.uri if r.identifier is not None else None,
            frozenset((a.uri, vkey(v)) for a, v in r.attributes))


def dkey(d):
    return (frozenset(rkey(r) for r in d.get_records()),
            frozenset((b.identifier.uri, frozenset(rkey(r) for r in b.get_records())) for b in d.bundles))


RECIPES = [
    ("e1", lambda b, p: b.entity(p + ":e1", {p + ":a": 1})),
    ("e1v", lambda b, p: b.entity(p + ":e1", {p + ":a": 2})),
    ("e1s", lambda b, p: b.entity(p + ":e1", {p + ":a": "1"})),
    ("e2", lambda b, p: b.entity(p + ":e2")),
    ("ag1", lambda b, p: b.agent(p + ":e1", {p + ":a": 1})),
    ("a1", lambda b, p: b.activity(p + ":a1", "2020-01-01T00:00:00")),
    ("gen", lambda b, p: b.generation(p + ":e1", p + ":a1")),
    ("gen-id", lambda b, p: b.generation(p + ":e1", p + ":a1", identifier=p + ":g1")),
    ("gen-id2", lambda b, p: b.generation(p + ":e1", p + ":a1", identifier=p + ":g2")),
    ("use", lambda b, p: b.usage(p + ":a1", p + ":e1")),
    ("gen-other", lambda b, p: b.generation(p + ":e2", p + ":a1")),
    ("lit", lambda b, p: b.entity(p + ":e3", {p + ":a": Literal("x", langtag="en")})),
    ("lit2", lambda b, p: b.entity(p + ":e3", {p + ":a": Literal("x", langtag="fr")})),
    ("spec", lambda b, p: b.specialization(p + ":e1", p + ":e2")),
    ("mention", lambda b, p: b.mention(p + ":e1", p + ":e2", p + ":bb")),
    ("mention0", lambda b, p: b.mention(p + ":e1", p + ":e2", None)),
    # observers interleaved with construction must not matter (hash / == are pure)
    ("a1-hashed-then-timed", lambda b, p: _hashed_then(b.activity(p + ":a1"), lambda r: r.set_time(datetime.datetime(2020, 1, 1)))),
    ("a1-timed", lambda b, p: b.activity(p + ":a1", datetime.datetime(2020, 1, 1))),
    ("col-hashed-then-typed", lambda b, p: _hashed_then(b.entity(p + ":c1"), lambda r: r.add_asserted_type(QualifiedName(Namespace("prov", "http://www.w3.org/ns/prov#"), "Collection")))),
    ("col", lambda b, p: b.collection(p + ":c1")),
    # values that differ but have the same Python hash (CPython: hash(-1) == hash(-2), hash(n) == hash(n + 2**61 - 1)):
    # equality must look at the values, not at their hashes
    ("e1-neg1", lambda b, p: b.entity(p + ":e1", {p + ":a": -1})),
    ("e1-neg2", lambda b, p: b.entity(p + ":e1", {p + ":a": -2})),
    ("e1-zero", lambda b, p: b.entity(p + ":e1", {p + ":a": 0})),
    ("e1-m61", lambda b, p: b.entity(p + ":e1", {p + ":a": 2 ** 61 - 1})),
    ("gen-neg1", lambda b, p: b.generation(p + ":e1", p + ":a1", None, None, {p + ":a": -1})),
    ("gen-neg2", lambda b, p: b.generation(p + ":e1", p + ":a1", None, None, {p + ":a": -2})),
]


def _hashed_then(rec, mutate):
    hash(rec)
    rec == rec
    mutate(rec)
    return rec


NAMES = [n for n, _ in RECIPES]
FN = dict(RECIPES)


def build(spec):
    """spec = (prefix, [recipe names], [(bundle id local, [recipe names])])"""
    prefix, recs, bundles = spec
    d = ProvDocument()
    d.add_namespace(prefix, EX)
    for n in recs:
        FN[n](d, prefix)
    for bid, brecs in bundles:
        b = d.bundle(prefix + ":" + bid)
        for n in brecs:
            FN[n](b, prefix)
    return d


def specs(rnd, budget):
    out = []
    singles = [[n] for n in NAMES] + [[]]
    pairs = [list(p) for p in itertools.combinations(NAMES, 2)]
    for recs in singles + pairs:
        for prefix in ("ex", "other"):
            out.append((prefix, recs, []))
    must = [("ex", [n], []) for n in ("mention0", "spec", "a1-hashed-then-timed", "a1-timed", "col-hashed-then-typed", "col",
                                      "e1-neg1", "e1-neg2", "e1-zero", "e1-m61", "gen-neg1", "gen-neg2")]
    must += [("ex", ["e2"], [("b1", [n])]) for n in ("e1-neg1", "e1-neg2")]
    for recs in singles[:8]:
        for brecs in ([], ["e1"], ["gen"], ["gen-id"]):
            out.append(("ex", recs, [("b1", brecs)]))
            out.append(("ex", recs, [("b2", brecs)]))
            out.append(("ex", recs, [("b1", brecs), ("b2", [])]))
    # duplicates and permutations
    out.append(("ex", ["e1", "e1"], []))
    out.append(("ex", ["gen", "e1"], []))
    out.append(("ex", ["e1", "gen"], []))
    rnd.shuffle(out)
    return must + out[:budget]


def check_pair(sa, sb, failures):
    a, b = build(sa), build(sb)
    same = dkey(a) == dkey(b)
    eq_ab, eq_ba = (a == b), (b == a)
    ne_ab = (a != b)
    v = []
    if eq_ab != eq_ba:
        v.append(("symmetric", "a == b is %s but b == a is %s" % (eq_ab, eq_ba)))
    if eq_ab == ne_ab:
        v.append(("negation-of-eq", "== and != agree"))
    if eq_ab != same:
        v.append(("same-content", "a == b is %s but the contents are %s" % (eq_ab, "the same" if same else "different")))
    # record level
    for ra in a.get_records():
        for rb in b.get_records():
            e1, e2 = (ra == rb), (rb == ra)
            if e1 != e2:
                v.append(("content-equality", "record == is asymmetric: %s vs %s" % (ra, rb)))
            if e1 and hash(ra) != hash(rb):
                v.append(("hash-consistent", "equal records hash differently: %s vs %s" % (ra, rb)))
            if e1 != (rkey(ra) == rkey(rb)):
                v.append(("content-equality", "record == is %s but keys %s: %s vs %s" % (e1, "equal" if rkey(ra) == rkey(rb) else "differ", ra, rb)))
    if not (a == a):
        v.append(("reflexive", "a != a"))
    for clause, what in v[:3]:
        k = clause
        if k not in failures:
            failures[k] = {"key": k, "kf": None, "clauses": [clause], "what": what, "history": [list(map(str, sa)), list(map(str, sb))],
                           "specs": [sa, sb]}
    return bool(v)


def value_level(failures):
    ns = Namespace("ex", EX)
    q, i = QualifiedName(ns, "x"), Identifier(EX + "x")
    if q == i and hash(q) != hash(i):
        failures.setdefault("identifier-vs-qualified-name", {
            "key": "identifier-vs-qualified-name", "kf": "KF-C04-identifier-hash", "clauses": ["identifier-vs-qualified-name"],
            "what": "QualifiedName == Identifier with the same URI but their hashes differ", "history": [], "specs": []})


def main():
    ap = argparse.ArgumentParser()
    ap.add_argument("--search", action="store_true")
    ap.add_argument("--replay")
    ap.add_argument("--tier", default="quick")
    ap.add_argument("--seed", type=int, default=0)
    ap.add_argument("--out")
    a = ap.parse_args()
    if a.replay:
        info = json.load(open(a.replay))
        print("obligation:", info.get("obligation"))
        bad = 0
        for f in info.get("native_failing_inputs", []):
            if not f.get("specs"):
                fl = {}
                value_level(fl)
                print(f["what"], "->", "reproduced" if fl else "holds")
                bad += bool(fl)
                continue
            sa, sb = [tuple(x) if isinstance(x, list) else x for x in f["specs"]]
            fl = {}
            r = check_pair(tuple(sa), tuple(sb), fl)
            print(f["what"], "->", "reproduced" if r else "holds")
            bad += bool(r)
        if not info.get("native_failing_inputs"):
            print("no native failing input recorded; solver output:")
            for p in info.get("paths", []):
                print(" ", p["name"], p["status"], p.get("tried"))
        return 1 if bad else 0
    rnd = random.Random(a.seed)
    sp = specs(rnd, 120 if a.tier == "quick" else 400)
    failures = {}
    n = 0
    pairs = list(itertools.product(sp, repeat=2))
    rnd.shuffle(pairs)
    first = list(itertools.product(sp[:14], repeat=2))  # the hand-picked specs are always compared with each other
    for sa, sb in first + pairs[: 3000 if a.tier == "quick" else 40000]:
        n += 1
        check_pair(sa, sb, failures)
    # transitivity on sampled triples of equal-looking documents
    for _ in range(300 if a.tier == "quick" else 3000):
        x, y, z = (build(rnd.choice(sp)) for _ in range(3))
        n += 1
        if x == y and y == z and not (x == z):
            failures.setdefault("transitive", {"key": "transitive", "kf": None, "clauses": ["transitive"], "what": "== is not transitive", "history": [], "specs": []})
    value_level(failures)
    res = {"evaluations": n, "distinct": len(sp), "rule": "ordered pairs of %d small documents from %d record recipes, plus sampled triples" % (len(sp), len(RECIPES)),
           "failures_found": len(failures), "failures": list(failures.values())}
    if a.out:
        json.dump(res, open(a.out, "w"), indent=1)
    print("C04 native battery: %d comparisons, %d failing clauses" % (n, len(failures)))
    for f in failures.values():
        print("  ", f["clauses"], f["what"])
    return 1 if failures else 0


if __name__ == "__main__":
    sys.exit(main())
