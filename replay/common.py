"""Shared pieces of the native batteries (bounded stand-ins / replay steps): strict content comparison
(DESIGN 3.1) and a seeded generator of documents from the 'C01 space' of the properties.

Strict content: per bundle, the multiset of (record type URI, identifier URI, multiset of (attribute URI,
kind-aware value)).  Kind-aware value: python type name + value; datetimes with their UTC offset; Literals with
value text, datatype URI and language tag; qualified names and identifiers by URI.  Prefixes are free."""
import datetime
import inspect
import random
from collections import Counter

from prov.model import ProvDocument, ProvBundle, Literal, ProvRecord
from prov.identifier import Identifier, QualifiedName, Namespace
from prov.constants import XSD_INT, XSD_STRING, XSD_DOUBLE, XSD_LONG, XSD_BOOLEAN, XSD_DATETIME, XSD_ANYURI, PROV

XSD = Namespace("xsd", "http://www.w3.org/2001/XMLSchema#")


def vkey(v):
    if isinstance(v, Literal):
        return ("Literal", v.value, v.datatype.uri if v.datatype is not None else None, v.langtag)
    if isinstance(v, QualifiedName):
        return ("QualifiedName", v.uri)
    if isinstance(v, Identifier):
        return ("Identifier", v.uri)
    if isinstance(v, datetime.datetime):
        off = v.utcoffset()
        return ("datetime", v.replace(tzinfo=None).isoformat(), None if off is None else off.total_seconds())
    if isinstance(v, float):
        return ("float", repr(v))
    return (type(v).__name__, v)


def rkey(r):
    return (r.get_type().uri, r.identifier.uri if r.identifier is not None else None,
            tuple(sorted(Counter((a.uri, vkey(v)) for a, v in r.attributes).items(), key=repr)))


def records_key(c):
    return tuple(sorted(Counter(rkey(r) for r in c.get_records()).items(), key=repr))


def strict(d):
    """strict content of a document (or bundle): own records + per bundle URI"""
    out = {"": records_key(d)}
    for b in d.bundles:
        out[b.identifier.uri] = records_key(b)
    return out


def diff_strict(a, b, limit=3):
    """human-readable difference of two strict contents"""
    msgs = []
    for k in sorted(set(a) | set(b), key=str):
        if k not in a:
            msgs.append("bundle <%s> appeared" % k)
        elif k not in b:
            msgs.append("bundle <%s> disappeared" % k)
        elif a[k] != b[k]:
            ca, cb = Counter(dict(a[k])), Counter(dict(b[k]))
            for r in list((ca - cb).keys())[:limit]:
                msgs.append("in <%s> lost/changed: %s" % (k, _short(r)))
            for r in list((cb - ca).keys())[:limit]:
                msgs.append("in <%s> new/changed:  %s" % (k, _short(r)))
    return msgs[:2 * limit]


def _short(r):
    t, i, attrs = r
    return "%s(%s) %s" % (t.rsplit("#", 1)[-1], i, [(a.rsplit("/", 1)[-1].rsplit("#", 1)[-1], v) for (a, v), n in attrs])[:300]


# --------------------------------------------------------------------------------------------- generator
EXNS = [("ex", "http://example.org/"), ("ex2", "http://example.org/2/"), ("dc", "http://purl.org/dc/terms/"),
        ("other", "http://other.example/ns#")]
ODD_PREFIXES = [("default", "http://prefix-named-default.example/"), ("xsd", "http://not-xml-schema.example/"), ("prov", "http://not-prov.example/")]

STRINGS = ["plain", "", "with \"double\" quotes", "it's", "line1\nline2", "tab\there", "back\\slash", "unicode é中\U0001F600",
           "<tag> & entity;", " leading and trailing ", "percent %s {brace}", "'''", "\"\"\"", "a\rb",
           "combining e\u0301 and a\u030a", "signs \u212b \u2126 \ufb01"]        # not stable under Unicode normalisation
INTS = [0, 1, -1, 42, 2 ** 31 - 1, 2 ** 31, -2 ** 31 - 1, 2 ** 63, 10 ** 30]
FLOATS = [0.0, 1.5, -2.25, 1e-7, 123456789.123, 1e300, 3.0]
TZ = [None, datetime.timezone.utc, datetime.timezone(datetime.timedelta(hours=5, minutes=30)), datetime.timezone(datetime.timedelta(hours=-8))]


def gen_datetime(rng):
    if rng.random() < 0.15:       # on the full hour / at midnight
        return datetime.datetime(rng.choice([1999, 2012, 2024]), rng.randint(1, 12), rng.randint(1, 28), rng.choice([0, 9, 23]), 0, 0, tzinfo=rng.choice(TZ))
    return datetime.datetime(rng.choice([1999, 2012, 2024]), rng.randint(1, 12), rng.randint(1, 28), rng.randint(0, 23), rng.randint(0, 59),
                             rng.randint(0, 59), rng.choice([0, 0, 500000, 123456]), tzinfo=rng.choice(TZ))


class Gen:
    """seeded generator; `features` restricts what may appear (the batteries of different formats exclude what
    their property excludes); every document carries the list of features it actually used (d._features)"""

    ALL = {"str-special", "bigint", "float", "bool", "datetime", "tz", "uri", "qname-value", "lang", "typed-literal", "multi-value",
           "default-ns", "bundle-default-ns", "clash", "bundle", "anon", "repeat-id", "full-uri-name", "qname-object", "foreign-ns",
           "formal-optional", "prov-attrs", "unregistered-datatype", "empty-string", "odd-prefix", "cr", "default-ns-attr", "prov-subtype", "prov-like-local"}

    def __init__(self, seed, features=None):
        self.rng = random.Random(seed)
        self.features = set(features) if features is not None else set(self.ALL)

    def has(self, f, p=0.5):
        return f in self.features and self.rng.random() < p

    def use(self, used, f, p=0.5):
        if self.has(f, p):
            used.add(f)
            return True
        return False

    def value(self, used, ns):
        rng = self.rng
        kinds = ["str", "int"]
        for f in ("str-special", "bigint", "float", "bool", "datetime", "uri", "qname-value", "lang", "typed-literal"):
            if f in self.features:
                kinds.append(f)
        k = rng.choice(kinds)
        if k == "str":
            return rng.choice(["plain", "hello world", "x"])
        if k == "int":
            return rng.choice([0, 1, 7, -3])
        used.add(k)
        if k == "str-special":
            s = rng.choice(STRINGS)
            if "\r" in s:
                if "cr" not in self.features:
                    return "no carriage return"
                used.add("cr")
            if s == "":
                if "empty-string" not in self.features:
                    return "nonempty"
                used.add("empty-string")
            return s
        if k == "bigint":
            return rng.choice(INTS)
        if k == "float":
            return rng.choice(FLOATS)
        if k == "bool":
            return rng.choice([True, False])
        if k == "datetime":
            dt = gen_datetime(rng)
            if dt.tzinfo is not None:
                if "tz" not in self.features:
                    dt = dt.replace(tzinfo=None)
                else:
                    used.add("tz")
            return dt
        if k == "uri":
            return Identifier(rng.choice(["http://example.org/doc#frag", "urn:isbn:0451450523", "mailto:a@b.c"]))
        if k == "qname-value":
            n = rng.choice(ns)
            return n[rng.choice(["val", "Kind", "v-1"])]
        if k == "lang":
            return Literal(rng.choice(["bonjour", "hello \"q\"", "grüß"]), langtag=rng.choice(["fr", "en", "de-AT"]))
        if k == "typed-literal":
            choice = rng.randint(0, 6)
            if choice >= 5:               # an application-defined datatype in a namespace the container declares
                n = rng.choice(ns)
                if n.prefix and n.prefix != "unreg":
                    used.add("app-datatype")
                    return Literal(rng.choice(["12 in", "3.5"]), n[rng.choice(["length", "score"])])
            if choice == 0:
                return Literal("2012-03", XSD["gYearMonth"])
            if choice == 1:
                return Literal("abc", XSD["token"])
            if choice == 2:
                return Literal("12", XSD["unsignedByte"])
            if choice == 3 and "unregistered-datatype" in self.features:
                used.add("unregistered-datatype")
                return Literal("POINT(1 2)", Namespace("geo", "http://geo.example/")["wkt"])
            return Literal("P1D", XSD["duration"])
        raise AssertionError(k)

    def attrs(self, used, ns, maxn=3, has_default=False):
        rng = self.rng
        out = []
        if has_default and self.use(used, "default-ns-attr", 0.25):
            out.append((rng.choice(["localattr", "other_local"]), self.value(used, ns)))
        if self.use(used, "prov-subtype", 0.12):
            out.append(("prov:type", PROV[rng.choice(["Revision", "Plan", "Person", "Collection", "Bundle", "Organization", "SoftwareAgent", "PrimarySource",
                                                     "Quotation", "EmptyCollection"])]))
        for _ in range(rng.randint(0, maxn)):
            n = rng.choice(ns)
            name = n[rng.choice(["a", "b", "attr-c", "d_e"])]
            if self.use(used, "prov-like-local", 0.12):
                # attribute names of other namespaces whose local part is a PROV attribute's
                name = n[rng.choice(["role", "type", "label", "plan", "value", "time", "entity", "location"])]
            if n.prefix == "unreg":
                pass                              # not registered: only usable as a QualifiedName object
            elif self.use(used, "full-uri-name", 0.15):
                name = name.uri
            elif not self.use(used, "qname-object", 0.3):
                name = str(name) if n.prefix else name
            out.append((name, self.value(used, ns)))
            if self.use(used, "multi-value", 0.25):
                out.append((name, self.value(used, ns)))
        if self.use(used, "prov-attrs", 0.3):
            which = rng.randint(0, 3)
            if which == 0:
                out.append(("prov:label", rng.choice(["a label", Literal("etikett", langtag="sv")]) if "lang" in self.features else "a label"))
            elif which == 1:
                out.append(("prov:type", rng.choice(ns)["Type1"] if "qname-value" in self.features else "typetext"))
            elif which == 2:
                out.append(("prov:location", rng.choice(["Paris", 12])))
            else:
                out.append(("prov:value", rng.choice([3, "val"])))
        return out

    def document(self, max_records=5):
        rng = self.rng
        used = set()
        d = ProvDocument()
        nss = []
        pool = list(EXNS)
        rng.shuffle(pool)
        for p, u in pool[: rng.randint(1, 3)]:
            nss.append(d.add_namespace(p, u))
        if self.use(used, "odd-prefix", 0.08):
            p, u = rng.choice(ODD_PREFIXES)
            used.add("odd-prefix:" + p)
            nss.append(d.add_namespace(p, u))
        if self.use(used, "default-ns", 0.3):
            d.set_default_namespace("http://default.example/")
        if self.use(used, "foreign-ns", 0.2):
            nss.append(Namespace("unreg", "http://unregistered.example/"))
        containers = [(d, list(nss))]
        if self.use(used, "bundle", 0.4):
            for bi in range(rng.randint(1, 2)):
                b = d.bundle(nss[0]["bundle%d" % bi])
                bns = list(nss)
                if self.use(used, "clash", 0.4):
                    bns = [b.add_namespace(nss[0].prefix, "http://clash.example/%d/" % bi)] + bns[1:]
                if self.use(used, "bundle-default-ns", 0.3):
                    b.set_default_namespace("http://bundledefault.example/%d/" % bi)
                containers.append((b, bns))
        for c, ns in containers:
            self.fill(c, ns, used, rng.randint(1 if c is d else 0, max_records))
        d._features = sorted(used)
        return d

    def ident(self, used, c, ns, names):
        rng = self.rng
        n = rng.choice(ns)
        local = rng.choice(names)
        if c.get_default_namespace() is not None and rng.random() < 0.3:
            return local                         # a bare local name in the default namespace
        q = n[local]
        r = rng.random()
        if r < 0.5 or not n.prefix or n.prefix == "unreg":
            return q
        if r < 0.85:
            return str(q)
        if "full-uri-name" in self.features:
            used.add("full-uri-name")
            return q.uri
        return q

    def fill(self, c, ns, used, n):
        rng = self.rng
        ents, acts, ags = ["e1", "e2", "e3"], ["a1", "a2"], ["ag1", "ag2"]
        kinds = ["entity", "activity", "agent", "collection", "generation", "usage", "start", "end", "invalidation", "communication", "attribution",
                 "association", "delegation", "influence", "derivation", "revision", "quotation", "primary_source", "specialization", "alternate",
                 "mention", "membership"]
        for _ in range(n):
            k = rng.choice(kinds)
            m = getattr(c, k)
            sig = inspect.signature(m)
            kw = {}
            for pn, p in sig.parameters.items():
                if pn == "identifier":
                    if p.default is inspect.Parameter.empty:
                        pool = ents if k in ("entity", "collection") else acts if k == "activity" else ags
                        if not self.use(used, "repeat-id", 0.5):
                            pool = [x + "_%d" % rng.randint(0, 99) for x in pool]
                        kw[pn] = self.ident(used, c, ns, pool)
                    elif self.use(used, "anon", 0.5):
                        kw[pn] = None
                    else:
                        kw[pn] = self.ident(used, c, ns, ["r1", "r2"] if self.use(used, "repeat-id", 0.3) else ["r%d" % rng.randint(3, 999)])
                elif pn == "other_attributes":
                    kw[pn] = self.attrs(used, ns, has_default=c.get_default_namespace() is not None)
                elif pn in ("time", "startTime", "endTime"):
                    if "datetime" in self.features and self.use(used, "formal-optional", 0.5):
                        dt = gen_datetime(rng)
                        if dt.tzinfo is not None and "tz" not in self.features:
                            dt = dt.replace(tzinfo=None)
                        elif dt.tzinfo is not None:
                            used.add("tz")
                        kw[pn] = dt
                elif pn == "bundle":
                    kw[pn] = self.ident(used, c, ns, ["bundle0", "bundleX"])
                elif p.default is inspect.Parameter.empty or self.use(used, "formal-optional", 0.5):
                    low = pn.lower()
                    pool = acts if "activity" in low or low in ("informed", "informant") else ags if low in ("agent", "delegate", "responsible") else ents
                    if low in ("influencee", "influencer"):
                        pool = rng.choice([ents, acts, ags])
                    if low in ("generation", "usage"):
                        pool = ["r1", "r2"]
                    kw[pn] = self.ident(used, c, ns, pool)
            if kw.get("identifier") is not None and "other_attributes" in kw and self.use(used, "repeat-id", 0.25):
                # the same statement again (same kind, same identifier), with and without attributes, in both orders
                first = dict(kw)
                second = dict(kw)
                if rng.random() < 0.6:
                    first["other_attributes"] = []
                if rng.random() < 0.4:
                    second["other_attributes"] = []
                else:
                    second["other_attributes"] = self.attrs(used, ns, has_default=c.get_default_namespace() is not None)
                m(**first)
                m(**second)
                if rng.random() < 0.3:
                    m(**first)
            else:
                m(**kw)


def documents(seed, count, features=None, max_records=5):
    g = Gen(seed, features)
    for i in range(count):
        yield i, g.document(max_records)


def describe(d):
    """PROV-N text of a generated document (for replay files)"""
    try:
        return d.get_provn()
    except Exception as e:  # noqa
        return "<get_provn failed: %r>" % e


# --------------------------------------------------------------------------------------------- failure classes
def _vals(s):
    c = Counter()
    for b, recs in s.items():
        for (t, i, attrs), n in recs:
            for (a, v), m in attrs:
                c[(a, v)] += n * m
    return c


def _vclass(v):
    k = v[0]
    if k == "Literal":
        dt = v[2] or ""
        if dt.startswith("http://www.w3.org/2001/XMLSchema#") or dt.startswith("http://www.w3.org/ns/prov#") or not dt:
            dt = dt.rsplit("#", 1)[-1]
        else:
            dt = "datatype-in-another-namespace"
        return "Literal[%s%s]" % (dt, "@lang" if v[3] else "")
    if k == "datetime":
        return "datetime[%s]" % ("tz" if v[2] is not None else "naive")
    if k == "str":
        s = v[1]
        tags = [t for t, c in (("empty", s == ""), ("newline", "\n" in s), ("cr", "\r" in s), ("quote", '"' in s), ("backslash", "\\" in s),
                               ("lt-amp", "<" in s or "&" in s), ("edge-space", s != s.strip()), ("non-ascii", any(ord(ch) > 127 for ch in s))) if c]
        return "str[%s]" % ",".join(tags)
    if k == "int":
        return "int[%s]" % ("big" if abs(v[1]) >= 2 ** 31 else "small")
    return k


def classify(before, after):
    """a short, stable name for the kind of difference between two strict contents"""
    if set(before) != set(after):
        return "bundles:" + ",".join(sorted("lost" if k in before else "new" for k in set(before) ^ set(after)))
    vb, va = _vals(before), _vals(after)
    lost, new = vb - va, va - vb
    if lost or new:
        ls = sorted({_vclass(v) for (a, v) in lost})
        ns_ = sorted({_vclass(v) for (a, v) in new})
        names_changed = {a for (a, v) in lost} != {a for (a, v) in new}
        return "values:%s->%s%s" % ("|".join(ls) or "-", "|".join(ns_) or "-", ";attr-uri-changed" if names_changed and lost and new else "")
    rb = Counter((t, i) for b, recs in before.items() for (t, i, attrs), n in recs for _ in range(n))
    ra = Counter((t, i) for b, recs in after.items() for (t, i, attrs), n in recs for _ in range(n))
    if rb != ra:
        lt = sorted({t.rsplit("#", 1)[-1] for (t, i) in (rb - ra)})
        nt = sorted({t.rsplit("#", 1)[-1] for (t, i) in (ra - rb)})
        ids_l = {i for (t, i) in (rb - ra)}
        ids_n = {i for (t, i) in (ra - rb)}
        return "records:%s->%s%s" % ("|".join(lt) or "-", "|".join(nt) or "-", ";identifier-changed" if ids_l != ids_n else "")
    return "grouping"


def exc_class(e):
    import re
    msg = re.sub(r"'[^']*'|\"[^\"]*\"", "*", str(e).split("||")[0].split("\n")[0].strip())
    return "raises:%s:%s" % (type(e).__name__, msg[:90])


# --------------------------------------------------------------------------------------------- excluded collisions
def _py_class(v):
    """values that Python's == identifies although they differ in kind (excluded by C01: set semantics)"""
    k = v[0]
    if k in ("bool", "int"):
        return ("num", float(v[1]) if abs(v[1]) < 2 ** 53 else v[1])
    if k == "float":
        return ("num", float(v[1]))
    if k in ("QualifiedName", "Identifier"):
        return ("uri", v[1])
    return v


def collision_keys(s):
    keys = set()
    for b, recs in s.items():
        for (t, i, attrs), n in recs:
            groups = {}
            for (a, v), m in attrs:
                groups.setdefault((a, _py_class(v)), set()).add(v)
            for (a, pc), vs in groups.items():
                if len(vs) > 1:
                    keys.add((b, t, i, a, pc))
    return keys


def drop_collisions(s, keys=None):
    """strict content with, per record and attribute, every group of values that collide under Python's ==
    (1/True/1.0, Identifier/QualifiedName of one URI) removed - the case C01 excludes.  `keys`: the collision
    groups to remove (computed over both sides of a comparison)"""
    if keys is None:
        keys = collision_keys(s)
    out = {}
    for b, recs in s.items():
        nrecs = Counter()
        for (t, i, attrs), n in recs:
            # (a python set holds an attribute-value pair once: multiplicities inside a record are not content)
            kept = [((a, v), 1) for (a, v), m in attrs if (b, t, i, a, _py_class(v)) not in keys]
            nrecs[(t, i, tuple(sorted(kept, key=repr)))] += n
        out[b] = tuple(sorted(nrecs.items(), key=repr))
    return out


def scoped_datatype_document():
    """application-defined datatypes written with one prefix that the document and its bundles bind differently, and
    with a prefix only a later bundle declares"""
    from prov.model import ProvDocument
    d = ProvDocument()
    d.add_namespace("u", "http://units.example/metric#")
    d.add_namespace("ex", "http://example.org/")
    d.entity("ex:rod", {"ex:len": Literal("2.5", d.valid_qualified_name("u:length")), "ex:w": Literal("7", d.valid_qualified_name("u:mass"))})
    b1 = d.bundle("ex:b1")
    b1.add_namespace("u", "http://units.example/imperial#")
    b1.entity("ex:rod", {"ex:len": Literal("8.2", b1.valid_qualified_name("u:length"))})
    b2 = d.bundle("ex:b2")
    b2.add_namespace("late", "http://late.example/")
    b2.entity("ex:rod", {"ex:len": Literal("1", b2.valid_qualified_name("late:length")), "ex:m": Literal("2", b2.valid_qualified_name("u:length"))})
    d._features = ["scoped-datatypes"]
    return d


def wellknown_document():
    """a document whose author declares the usual vocabularies under their usual prefixes (rdf, rdfs, owl, dcterms,
    foaf, skos) and uses them for attribute names, a value, an element identifier and relation endpoints"""
    from prov.model import ProvDocument, Identifier
    d = ProvDocument()
    d.add_namespace("ex", "http://example.org/")
    d.add_namespace("rdfs", "http://www.w3.org/2000/01/rdf-schema#")
    d.add_namespace("owl", "http://www.w3.org/2002/07/owl#")
    d.add_namespace("rdf", "http://www.w3.org/1999/02/22-rdf-syntax-ns#")
    d.add_namespace("dcterms", "http://purl.org/dc/terms/")
    d.add_namespace("foaf", "http://xmlns.com/foaf/0.1/")
    d.add_namespace("skos", "http://www.w3.org/2004/02/skos/core#")
    d.entity("ex:report", {"rdfs:comment": "quarterly figures", "owl:versionInfo": "1.2", "dcterms:title": "Report",
                           "skos:note": d.valid_qualified_name("rdf:nil")})
    d.entity("ex:draft")
    d.activity("ex:edit")
    d.agent("foaf:Agent0", {"foaf:name": "A"})
    d.usage("ex:edit", "ex:draft", identifier="ex:u1", other_attributes={"rdfs:seeAlso": Identifier("http://example.org/howto")})
    d.derivation("ex:report", "ex:draft")
    d.specialization("ex:report", "owl:Thing")
    d.attribution("ex:report", "foaf:Agent0")
    d._features = ["well-known-vocabularies"]
    return d
