#!/usr/bin/env python
"""Native battery for C02 (PROV-XML round trip preserves every document exactly).  Bounded; see roundtrip.py.
Features excluded as the property excludes them: attribute names given as full URIs (their compaction need not
be an NCName), carriage returns in strings."""
import os
import sys

sys.path.insert(0, os.path.dirname(os.path.abspath(__file__)))
import common  # noqa: E402
import roundtrip  # noqa: E402

if __name__ == "__main__":
    sys.exit(roundtrip.run("C02", "xml", common.Gen.ALL - {"full-uri-name", "cr"}))
