#!/usr/bin/env python
"""Native battery for C02 (PROV-XML round trip preserves every document exactly).  Bounded; see roundtrip.py."""
import os
import sys

sys.path.insert(0, os.path.dirname(os.path.abspath(__file__)))
import roundtrip  # noqa: E402

if __name__ == "__main__":
    sys.exit(roundtrip.run("C02", "xml", None))
