#!/usr/bin/env python
"""Native replay / small-scope search for C09 (flattened(), update() and add_bundle() conserve records).
Replay step of the contract check; never proof.

Scope: pairs of small documents (shared bundle identifiers, clashing prefixes, different default namespaces
at both levels, repeated identifiers, multi-valued attributes, every value kind) and the calls flattened,
update (also applied twice), add_bundle (bundle, bundle-free document, duplicate identifier, missing /
unresolvable identifier, document with nested bundles), bundle().  Oracle: strict multiset of record keys
(type URI, identifier URI, multiset of (attribute URI, kind-aware value))."""
import argparse
import datetime
import itertools
import json
import sys
from collections import Counter

from prov.model import ProvDocument, ProvBundle, ProvException, Literal
from prov.identifier import Identifier, QualifiedName, Namespace
from prov.constants import XSD_INT

T1 = datetime.datetime(2020, 1, 2, 3, 4, 5)


def vkey(v):
    if isinstance(v, Literal):
        return ("lit", v.value, v.datatype.uri if v.datatype is not None else None, v.langtag)
    if isinstance(v, QualifiedName):
        return ("qn", v.uri)
    if isinstance(v, Identifier):
        return ("uri", v.uri)
    if isinstance(v, datetime.datetime):
        return ("dt", v.isoformat())
    return (type(v).__name__, v)


def rkey(r):
    return (r.get_type().uri, r.identifier.uri if r.identifier is not None else None,
            tuple(sorted(Counter((a.uri, vkey(v)) for a, v in r.attributes).items(), key=repr)))


def recs(c):
    return Counter(rkey(r) for r in c.get_records())


def content(d):
    return (recs(d), {b.identifier.uri if b.identifier is not None else None: recs(b) for b in d.bundles})


def make(kind):
    d = ProvDocument()
    if kind == "A":
        d.add_namespace("ex", "http://a/")
        d.set_default_namespace("http://defA/")
        d.entity("ex:e1", {"ex:v": 1, "ex:w": "x", "ex:t": T1, "ex:q": QualifiedName(Namespace("ex", "http://a/"), "val")})
        d.entity("ex:e1", {"ex:v": 2})
        d.entity("local")
        d.activity("ex:a1", T1)
        d.generation("ex:e1", "ex:a1", T1, identifier="ex:g1")
        d.generation("ex:e1", "ex:a1")
        b = d.bundle("ex:b1")
        b.set_default_namespace("http://defAb/")
        b.entity("ex:e1", {"ex:v": 3, "ex:multi": "a"})
        b.entity("inbundle")
        b.get_record("ex:e1")[0].add_attributes({"ex:multi": "b"})
        b2 = d.bundle("ex:b2")
        b2.agent("ex:ag", {"ex:lit": Literal("hello", langtag="en"), "ex:u": Identifier("http://x/y")})
    elif kind == "B":
        d.add_namespace("ex", "http://b/")      # same prefix, other URI
        d.add_namespace("other", "http://a/")   # other prefix, URI of A
        d.set_default_namespace("http://defB/")
        d.entity("ex:e1", {"ex:v": True})
        d.entity("other:e1", {"other:v": 1.5})
        d.entity("local")
        b = d.bundle("other:b1")                # same bundle URI as A's ex:b1
        b.entity("other:e1", {"other:v": 3})
        b.entity("ex:z")
    elif kind == "C":
        d.add_namespace("ex", "http://a/")
        d.entity("ex:only", {"ex:many": "1"})
        d.get_record("ex:only")[0].add_attributes({"ex:many": "2", "ex:n": Literal("7", XSD_INT)})
        d.specialization("ex:only", "ex:e1")
    return d


def scenarios():
    for a, b in itertools.product("ABC", repeat=2):
        def upd(a=a, b=b, twice=False):
            x, y = make(a), make(b)
            bx, by = content(x), content(y)
            x.update(y)
            if twice:
                x.update(y)
            k = 2 if twice else 1
            v = []
            want_own = bx[0] + Counter({kk: vv * k for kk, vv in by[0].items()})
            if recs(x) != want_own:
                v.append(("count", "update(%s,%s): document-level records are not old + other's" % (a, b)))
            for uri, rs in by[1].items():
                want = bx[1].get(uri, Counter()) + Counter({kk: vv * k for kk, vv in rs.items()})
                got = content(x)[1].get(uri)
                if got != want:
                    v.append(("others-records-copied", "update(%s,%s): bundle <%s> holds %s, expected %s" % (a, b, uri, sum((got or Counter()).values()), sum(want.values()))))
            for uri, rs in bx[1].items():
                if uri not in by[1] and content(x)[1].get(uri) != rs:
                    v.append(("old-records-kept", "update(%s,%s): untouched bundle <%s> changed" % (a, b, uri)))
            if content(y) != by:
                v.append(("other-unchanged", "update(%s,%s): the other document changed" % (a, b)))
            return v
        yield "update:%s%s" % (a, b), upd
        yield "update-twice:%s%s" % (a, b), (lambda upd=upd: upd(twice=True))
    for a in "ABC":
        def flat(a=a):
            x = make(a)
            bx = content(x)
            f = x.flattened()
            want = bx[0] + sum(bx[1].values(), Counter())
            v = []
            if recs(f) != want:
                v.append(("same-record-key", "flattened(%s): %d records, expected %d (as strict multiset)" % (a, sum(recs(f).values()), sum(want.values()))))
            if list(f.bundles):
                v.append(("no-bundles", "flattened(%s) still has bundles" % a))
            if content(x) != bx:
                v.append(("source-unchanged", "flattened(%s) changed its source" % a))
            return v
        yield "flattened:%s" % a, flat
    for a, b in itertools.product("ABC", "C"):
        def addb(a=a, b=b):
            x, y = make(a), make(b)      # y is bundle-free (C)
            bx, by = content(x), content(y)
            v = []
            x.add_bundle(y, "ex:new")
            cx = content(x)
            new_uri = [u for u in cx[1] if u not in bx[1]]
            if len(new_uri) != 1 or cx[1][new_uri[0]] != by[0]:
                v.append(("one-bundle-added", "add_bundle(document): the attached bundle does not hold the document's records"))
            if cx[0] != bx[0] or any(cx[1][u] != bx[1][u] for u in bx[1]):
                v.append(("own-records-kept", "add_bundle changed other content of the document"))
            if content(y) != by:
                v.append(("source-unchanged", "add_bundle(document) changed the argument"))
            # refusals must leave d unchanged
            before = content(x)
            for what, thunk in (("duplicate", lambda: x.add_bundle(make(b), "ex:new")),
                                ("missing", lambda: x.add_bundle(ProvBundle())),
                                ("unresolvable", lambda: x.add_bundle(ProvBundle(), "nosuchprefix:name")),
                                ("nested", lambda: x.add_bundle(make("A"), "ex:nested")),
                                ("not-a-bundle", lambda: x.add_bundle("text", "ex:t"))):
                try:
                    thunk()
                    v.append(("key-is-a-name" if what == "unresolvable" else "refusal", "add_bundle accepted a %s identifier/argument" % what))
                except ProvException:
                    pass
                except Exception as e:  # noqa
                    v.append(("refusal", "add_bundle(%s) raised %r instead of ProvException" % (what, e)))
                if content(x) != before:
                    if what != "unresolvable":
                        v.append(("DocUnchanged", "a refused add_bundle (%s) changed the document" % what))
                    before = content(x)
            return v
        yield "add_bundle:%s%s" % (a, b), addb
    def plain_bundle():
        x = make("C")
        b = ProvBundle(identifier=None)
        b.add_namespace("q", "http://q/")
        b.entity("q:e", {"q:v": 1})
        x.add_bundle(b, "ex:bb")
        v = []
        got = content(x)[1]
        if Counter({k: 1 for k in []}) is None or "http://a/bb" not in got or sum(got["http://a/bb"].values()) != 1:
            v.append(("one-bundle-added", "add_bundle(bundle) did not register the bundle under the requested identifier"))
        return v
    yield "add_bundle:plain", plain_bundle
    # generated pairs (replay/common.py generator: bundles, clashing prefixes, default namespaces at both levels,
    # repeated identifiers, every value kind)
    import os as _os, sys as _sys
    _sys.path.insert(0, _os.path.dirname(_os.path.abspath(__file__)))
    import common as _c
    n_pairs = int(_os.environ.get("C09_GENERATED_PAIRS", "40"))
    feats = _c.Gen.ALL - {"odd-prefix", "unregistered-datatype"}

    def gen_pair(i):
        docs = [d_ for _, d_ in _c.documents(1000 + i, 2, feats, max_records=4)]
        return docs[0], docs[1]

    for i in range(n_pairs):
        def upd_g(i=i):
            x, y = gen_pair(i)
            bx, by = _c.strict(x), _c.strict(y)
            x.update(y)
            ax = _c.strict(x)
            v = []
            want = {}
            for k in set(bx) | set(by):
                want[k] = Counter(dict(bx.get(k, ()))) + Counter(dict(by.get(k, ())))
            got = {k: Counter(dict(ax.get(k, ()))) for k in ax}
            if got != want:
                v.append(("others-records-copied", "generated pair #%d: update() result is not the bundle-wise multiset sum of both documents" % i))
            if _c.strict(y) != by:
                v.append(("other-unchanged", "generated pair #%d: update() changed the other document" % i))
            return v
        yield "update:generated#%d" % i, upd_g

        def flat_g(i=i):
            x, _ = gen_pair(i)
            bx = _c.strict(x)
            f = x.flattened()
            want = Counter()
            for k in bx:
                want += Counter(dict(bx[k]))
            af = _c.strict(f)
            v = []
            if Counter(dict(af.get("", ()))) != want or len(af) != 1:
                v.append(("same-record-key", "generated #%d: flattened() is not the multiset union of the document's and its bundles' records" % i))
            if _c.strict(x) != bx:
                v.append(("source-unchanged", "generated #%d: flattened() changed its source" % i))
            return v
        yield "flattened:generated#%d" % i, flat_g


def main():
    ap = argparse.ArgumentParser()
    ap.add_argument("--search", action="store_true")
    ap.add_argument("--replay")
    ap.add_argument("--tier", default="quick")
    ap.add_argument("--seed", type=int, default=0)
    ap.add_argument("--out")
    a = ap.parse_args()
    import os
    os.environ["C09_GENERATED_PAIRS"] = "200" if a.tier == "thorough" else "40"
    failures = {}
    n = 0
    for key, thunk in scenarios():
        n += 1
        try:
            v = thunk()
        except Exception as e:  # noqa
            v = [("no-unexpected-exception", "%s raised %r" % (key, e))]
        for clause, what in v:
            failures.setdefault(clause, {"key": clause, "kf": None, "clauses": [clause], "what": what, "scenario": key, "history": [key]})
    if a.replay:
        info = json.load(open(a.replay))
        print("obligation:", info.get("obligation"))
        for f in failures.values():
            print("still failing:", f["what"])
        return 1 if failures else 0
    res = {"evaluations": n, "distinct": n, "rule": "pairs of three hand-built documents x {update, update twice, flattened, add_bundle and its refusals} + generated pairs of documents (replay/common.py) x {update, flattened}",
           "failures_found": len(failures), "failures": list(failures.values())}
    if a.out:
        json.dump(res, open(a.out, "w"), indent=1)
    print("C09 native battery: %d scenarios, %d failing clauses" % (n, len(failures)))
    for f in failures.values():
        print("  ", f["clauses"], f["what"][:200], "[%s]" % f["scenario"])
    return 1 if failures else 0


if __name__ == "__main__":
    sys.exit(main())
