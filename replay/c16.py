#!/usr/bin/env python
"""Native battery for C16 (all source/destination kinds agree, and prov.read detects the format).  Bounded.

For generated documents with non-ASCII content in the intersection of the C01/C02/C07 spaces, every format in
{json, xml, rdf, provn (write only)} x 4 destination kinds (returned string, text stream, binary stream, file
path) x 5 source kinds (content str, content bytes, text stream, binary stream, path), with and without an
explicit format argument to prov.read."""
import argparse
import io
import json
import os
import shutil
import sys
import tempfile

sys.path.insert(0, os.path.dirname(os.path.abspath(__file__)))
import common  # noqa: E402
import prov  # noqa: E402
from prov.model import ProvDocument  # noqa: E402

# the C07-expressible core: registered non-empty prefixes only, non-empty bundles, no floats / foreign literals...
FEATURES = {"str-special", "bigint", "bool", "datetime", "tz", "uri", "qname-value", "lang", "multi-value", "qname-object", "prov-attrs", "formal-optional", "repeat-id"}


def write_all(d, fmt, tmp):
    """-> {destination kind: text}"""
    out = {}
    out["returned-string"] = d.serialize(format=fmt)
    s = io.StringIO()
    d.serialize(s, format=fmt)
    out["text-stream"] = s.getvalue()
    b = io.BytesIO()
    d.serialize(b, format=fmt)
    out["binary-stream"] = b.getvalue().decode("utf-8")
    p = os.path.join(tmp, "out-é." + fmt)
    d.serialize(p, format=fmt)
    out["file-path"] = open(p, "rb").read().decode("utf-8")
    # text streams that are a text layer over a file, in an encoding other than UTF-8: what is read back through
    # the same text layer must be the same text (latin-1 only where the text can be encoded in it at all)
    for enc in ("utf-16", "latin-1"):
        try:
            out["returned-string"].encode(enc)
        except UnicodeEncodeError:
            continue
        q = os.path.join(tmp, "text-%s.%s" % (enc, fmt))
        with open(q, "w", encoding=enc, newline="") as f:
            d.serialize(f, format=fmt)
        with open(q, "r", encoding=enc, newline="") as f:
            out["text-file:" + enc] = f.read()
    return out, p


def sources(text, path):
    yield "content-str", lambda: dict(content=text)
    yield "content-bytes", lambda: dict(content=text.encode("utf-8"))
    yield "text-stream", lambda: dict(source=io.StringIO(text))
    yield "binary-stream", lambda: dict(source=io.BytesIO(text.encode("utf-8")))
    yield "path", lambda: dict(source=path)
    q = path + ".utf16"
    with open(q, "w", encoding="utf-16", newline="") as f:
        f.write(text)
    yield "text-file:utf-16", lambda: dict(source=open(q, "r", encoding="utf-16", newline=""))


def same_xml(a, b):
    from lxml import etree
    try:
        etree.fromstring(a.encode("utf-8"))
        etree.fromstring(b.encode("utf-8"))
    except etree.XMLSyntaxError:
        return False            # the text written to one of the destinations is not even well-formed
    return etree.tostring(etree.fromstring(a.encode("utf-8")), method="c14n") == etree.tostring(etree.fromstring(b.encode("utf-8")), method="c14n")


def main():
    ap = argparse.ArgumentParser()
    ap.add_argument("--search", action="store_true")
    ap.add_argument("--replay")
    ap.add_argument("--tier", default="quick")
    ap.add_argument("--seed", type=int, default=0)
    ap.add_argument("--out")
    a = ap.parse_args()
    from roundtrip import load_kf
    kfs = load_kf("C16")
    failures = {}
    n = 0
    count = 60 if a.tier == "thorough" else 12
    tmp = tempfile.mkdtemp(prefix="c16_", dir="/var/tmp")

    def fail(clause, cls, what):
        kf = None
        for kid, keys, feat in kfs:
            if any((cls.startswith(k_[:-1]) if k_.endswith("*") else cls == k_) for k_ in keys):
                kf = kid
        failures.setdefault((clause, cls), {"key": "%s|%s" % (clause, cls), "kf": kf, "clauses": [clause], "what": what, "history": [what.split(":")[0]]})

    try:
        def all_documents():
            for i, d in common.documents(a.seed + 77, count, FEATURES, max_records=3):
                px = list(d.namespaces)[0].prefix
                d.entity(d.valid_qualified_name(px + ":nonascii"), {"prov:label": "grüße 中文 \U0001F600"})
                if i % 2:
                    # non-ASCII letters in names too (XML element names, JSON keys, IRIs): a text destination must
                    # not spell them differently from a binary one
                    d.entity(d.valid_qualified_name(px + ":entit\u00e9"), {px + ":caf\u00e9\u4e2d": "v"})
                yield i, d
            # large texts (several hundred KiB) of multi-byte characters at every byte alignment: anything that
            # handles the text piecewise (buffers, blocks) meets character boundaries inside a piece
            for pad in range(3):
                big = ProvDocument()
                big.add_namespace("ex", "http://example.org/")
                big.entity("ex:big", {"prov:label": "x" * pad + "\u4e2d\u6587\u00e9\U0001F600" * 30000, "ex:v": 1})
                yield "big%d" % pad, big

        for i, d in all_documents():
            want = common.strict(d)
            for fmt in ("json", "xml", "rdf", "provn"):
                n += 1
                key = "doc#%s/%s" % (i, fmt)
                try:
                    texts, path = write_all(d, fmt, tmp)
                except Exception as e:  # noqa
                    fail("destinations-agree", "raises:" + type(e).__name__, "%s: writing raised %r" % (key, e))
                    continue
                ref = texts["returned-string"]
                for k, t in texts.items():
                    if fmt == "rdf":
                        continue            # blank node labels differ from call to call; compared through the reader below
                    same = (t == ref) or (fmt == "xml" and same_xml(t, ref))
                    if not same:
                        fail("destinations-agree", "%s:%s" % (fmt, k), "%s: the text written to %s differs from the returned string" % (key, k))
                if fmt == "provn":
                    continue
                base = None
                for sk, mk in sources(ref, path):
                    for explicit in (True, False):
                        try:
                            if explicit:
                                d2 = ProvDocument.deserialize(format=fmt, **mk())
                                how = "deserialize"
                            else:
                                kw = mk()
                                if "content" in kw:
                                    continue      # prov.read takes a source (stream or path)
                                d2 = prov.read(kw["source"])
                                how = "prov.read"
                                # ... and told the format, in either case of letters
                                for given in (fmt, fmt.upper()):
                                    d3 = prov.read(mk()["source"], format=given)
                                    if common.strict(d3) != common.strict(d2):
                                        fail("read-detects-format", "%s:%s:explicit-format-differs" % (fmt, sk),
                                             "%s: prov.read(format=%r) from %s differs from prov.read without format" % (key, given, sk))
                            s2 = common.strict(d2)
                            if base is None:
                                base = s2          # the document read from the content string is the reference for all other sources
                            # (json/xml: it must also be the original document; RDF's own round trip is C07's subject)
                            target = want if fmt != "rdf" else base
                            if s2 != target:
                                fail("sources-agree" if explicit else "read-detects-format", "%s:%s:%s" % (fmt, sk, "empty-document" if not any(s2.values()) else "content-differs"),
                                     "%s: %s from %s yields another document: %s" % (key, how, sk, common.diff_strict(target, s2)[:1]))
                        except Exception as e:  # noqa
                            fail("sources-agree" if explicit else "read-detects-format", "%s:%s:raises:%s" % (fmt, sk, type(e).__name__),
                                 "%s: %s from %s raised %r" % (key, "deserialize" if explicit else "prov.read", sk, e))
    finally:
        shutil.rmtree(tmp, ignore_errors=True)
    if a.replay:
        info = json.load(open(a.replay))
        print("obligation:", info.get("obligation"))
        bad = [f for f in failures.values() if not f["kf"]]
        for f in bad:
            print("still failing:", f["what"])
        return 1 if bad else 0
    res = {"evaluations": n, "distinct": n, "samples": ["doc#0/json", "doc#0/rdf"],
           "rule": "%d generated documents (C07-expressible features, plus a non-ASCII label and, in every second one, non-ASCII letters in an identifier and an attribute name) x 4 formats; per case 4 destination kinds + text files in utf-16 / latin-1, 5 source kinds + a utf-16 text file, with/without explicit format" % count,
           "failures_found": len(failures), "failures": list(failures.values())}
    if a.out:
        json.dump(res, open(a.out, "w"), indent=1)
    print("C16 native battery: %d (document, format) cases, %d failure classes" % (n, len(failures)))
    for f in failures.values():
        print("  ", "[%s]" % (f["kf"] or "NEW"), f["key"], "|", f["what"][:200])
    return 1 if [f for f in failures.values() if not f["kf"]] else 0


if __name__ == "__main__":
    sys.exit(main())
