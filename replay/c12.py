#!/usr/bin/env python
"""Native replay / small-scope search for C12 (derived documents and copied records share no mutable state
with their sources).  Replay step of the contract check; bounded, never proof.

Scope: every deriving operation of the property (record copy, add_record, document construction from records,
update, add_bundle of a document, unified, flattened of a document with bundles, JSON/XML deserialisation) on
two hand-built documents x every follow-up mutation (add attributes to each record, add a record, register a
namespace, set a default namespace, add a bundle) applied to the result and, separately, to the source;
observed: strict content (type, identifier URI, multiset of (attribute URI, kind-aware value)) per bundle, the
registered namespaces and the default namespace of every level."""
import argparse
import datetime
import json
import sys
from collections import Counter

from prov.model import ProvDocument, ProvBundle, ProvRecord, Literal
from prov.identifier import Identifier, QualifiedName

T1 = datetime.datetime(2021, 2, 3, 4, 5, 6)


def vkey(v):
    if isinstance(v, Literal):
        return ("lit", v.value, v.datatype.uri if v.datatype is not None else None, v.langtag)
    if isinstance(v, QualifiedName):
        return ("qn", v.uri)
    if isinstance(v, Identifier):
        return ("uri", v.uri)
    if isinstance(v, datetime.datetime):
        return ("dt", v.isoformat())
    return (type(v).__name__, v)


def rkey(r):
    return (r.get_type().uri, r.identifier.uri if r.identifier is not None else None,
            tuple(sorted(Counter((a.uri, vkey(v)) for a, v in r.attributes).items(), key=repr)))


def ns_view(c):
    dn = c.get_default_namespace() if hasattr(c, "get_default_namespace") else None
    return (tuple(sorted((n.prefix, n.uri) for n in c.namespaces)), dn.uri if dn is not None else None)


def view(c):
    """observable content and namespace declarations of a document / bundle / record"""
    if isinstance(c, ProvRecord):
        return ("record", rkey(c))
    out = [("own", tuple(sorted(Counter(rkey(r) for r in c.get_records()).items(), key=repr)), ns_view(c))]
    for b in sorted(c.bundles, key=lambda b: b.identifier.uri):
        out.append((b.identifier.uri, tuple(sorted(Counter(rkey(r) for r in b.get_records()).items(), key=repr)), ns_view(b)))
    return tuple(out)


def make(kind):
    d = ProvDocument()
    d.add_namespace("ex", "http://ex/")
    d.add_namespace("unused", "http://unused/")
    if kind == "default":
        d.set_default_namespace("http://def/")
        d.entity("local", {"ex:v": 0})
    d.entity("ex:e1", {"ex:v": 1, "ex:w": "x", "ex:t": T1})
    d.entity("ex:e1", {"ex:v": 2})
    d.activity("ex:a1", T1, None, {"ex:q": Literal("l", langtag="en")})
    d.generation("ex:e1", "ex:a1", T1, identifier="ex:g1")
    d.usage("ex:a1", "ex:e1")
    if kind == "looked-at":
        # observers run before the derivation: reading an attribute a record does not have (label, value, formal
        # arguments, get_attribute of an absent name) leaves an empty value set behind in its defaultdict
        for r in d.get_records():
            r.label, r.value, r.formal_attributes, r.args, r.get_attribute("ex:absent"), r.get_attribute("ex:added"), repr(r), str(r)
    return d


def with_bundles(d):
    b = d.bundle("ex:b1")
    b.add_namespace("bb", "http://bb/")
    b.entity("ex:e1", {"bb:v": 3})
    b.entity("ex:e1", {"bb:v": 4})
    b.agent("bb:ag")
    return d


# ---- deriving operations: source factory -> (source, derived, label of what must stay apart)
def derivations():
    for kind in ("plain", "default", "looked-at"):
        yield "record.copy[%s]" % kind, lambda kind=kind: (lambda d: (d, d.get_record("ex:e1")[0].copy(), d.get_record("ex:e1")[0]))(make(kind))
        def add_record(kind=kind):
            s = make(kind)
            t = ProvDocument()
            r = t.add_record(s.get_record("ex:e1")[0])
            return s, t, None
        yield "add_record[%s]" % kind, add_record
        yield "document-from-records[%s]" % kind, lambda kind=kind: (lambda s: (s, ProvDocument(records=s.get_records()), None))(make(kind))
        yield "bundle-from-records[%s]" % kind, lambda kind=kind: (lambda s: (s, ProvBundle(records=s.get_records(), identifier=None), None))(make(kind))
        def update(kind=kind):
            s = with_bundles(make(kind))
            t = ProvDocument()
            t.add_namespace("ex", "http://other/")
            t.update(s)
            return s, t, None
        yield "update[%s]" % kind, update
        def bundle_update(kind=kind):
            s = make(kind)
            t = ProvDocument()
            b = t.bundle(QualifiedName(s.valid_qualified_name("ex:bx").namespace, "bx"))
            b.update(s)
            return s, t, None
        yield "bundle.update[%s]" % kind, bundle_update
        def add_bundle(kind=kind):
            s = make(kind)
            t = ProvDocument()
            t.add_namespace("ex", "http://ex/")
            t.add_bundle(s, "ex:attached")
            return s, t, None
        yield "add_bundle(document)[%s]" % kind, add_bundle
        yield "unified[%s]" % kind, lambda kind=kind: (lambda s: (s, s.unified(), None))(with_bundles(make(kind)))
        yield "unified-no-merge[%s]" % kind, lambda kind=kind: (lambda s: (s, s.unified(), None))(ProvDocument(records=[make(kind).get_record("ex:a1")[0]]))
        yield "bundle.unified[%s]" % kind, lambda kind=kind: (lambda s: (s, list(s.bundles)[0].unified(), None))(with_bundles(make(kind)))
        yield "flattened[%s]" % kind, lambda kind=kind: (lambda s: (s, s.flattened(), None))(with_bundles(make(kind)))
        for fmt in ("json", "xml", "rdf"):
            def deser(kind=kind, fmt=fmt):
                s = with_bundles(make(kind))
                text = s.serialize(format=fmt)
                t1 = ProvDocument.deserialize(content=text, format=fmt)
                return t1, ProvDocument.deserialize(content=text, format=fmt), None
            yield "deserialize-twice-%s[%s]" % (fmt, kind), deser


def containers_of(x):
    if isinstance(x, ProvRecord):
        return []
    return [x] + list(x.bundles)


def mutations():
    def add_attrs(x):
        recs = [x] if isinstance(x, ProvRecord) else [r for c in containers_of(x) for r in c.get_records()]
        for r in recs:
            r.add_attributes({"ex:added": "later", "prov:label": "late label"})
            # one more value under every attribute name the record already has (shared value sets show up here)
            for name in sorted({a for a, _ in r.attributes if a.namespace.uri != "http://www.w3.org/ns/prov#"}, key=str):
                r.add_attributes([(name, "one more value")])
    yield "add-attributes-to-every-record", add_attrs

    def add_rec(x):
        for c in containers_of(x):
            c.entity("ex:brand_new", {"ex:v": 99})
    yield "add-a-record", add_rec

    def reg_ns(x):
        for c in containers_of(x):
            c.add_namespace("late", "http://late/")
            c.add_namespace("ex", "http://clash/")     # clashes with the registered ex
    yield "register-namespaces", reg_ns

    def set_default(x):
        for c in containers_of(x):
            if c.get_default_namespace() is None:
                c.set_default_namespace("http://latedefault/")
    yield "set-default-namespace", set_default

    def add_bundle(x):
        if isinstance(x, ProvDocument):
            nb = x.bundle(x.valid_qualified_name("ex:late_bundle"))
            nb.entity("ex:in_late_bundle")
    yield "add-a-bundle", add_bundle

    def use_new_prefix(x):
        from prov.identifier import Namespace
        foreign = Namespace("fresh", "http://fresh/")
        for c in containers_of(x):
            c.entity(foreign["thing"], {foreign["attr"]: foreign["val"]})
    yield "use-an-unregistered-namespace", use_new_prefix


def main():
    ap = argparse.ArgumentParser()
    ap.add_argument("--search", action="store_true")
    ap.add_argument("--replay")
    ap.add_argument("--tier", default="quick")
    ap.add_argument("--seed", type=int, default=0)
    ap.add_argument("--out")
    a = ap.parse_args()
    failures = {}
    n = 0
    for dname, derive in derivations():
        for mname, mutate in mutations():
            for side in ("derived", "source"):
                key = "%s | %s on %s" % (dname, mname, side)
                if dname.startswith("record.copy") and not mname.startswith("add-attributes"):
                    continue
                n += 1
                try:
                    src, der, rec = derive()
                    if dname.startswith("record.copy"):
                        # the copy shares its bundle (documented); observed: the two records' own content
                        touched, other = (der, rec) if side == "derived" else (rec, der)
                    else:
                        touched, other = (der, src) if side == "derived" else (src, der)
                    before = view(other)
                    mutate(touched)
                    after = view(other)
                    if before != after:
                        op = dname.split("[")[0]
                        clause = {"record.copy": "fresh", "add_record": "fresh", "unified": "own-fresh-manager"}.get(op, "separation")
                        failures.setdefault((op, mname, side), {
                            "key": "%s|%s|%s" % (op, mname, side), "kf": None,
                            "clauses": ["fresh-store", "no-leak", "own-fresh-manager", "fresh", clause],
                            "what": "%s: the %s side changed when the other side was mutated (%s)" % (dname, "source" if side == "derived" else "derived", mname),
                            "history": [key]})
                except Exception as e:  # noqa
                    failures.setdefault(("exc", dname, mname), {"key": "exc|" + key, "kf": None, "clauses": ["no-unexpected-exception"],
                                                                 "what": "%s raised %r" % (key, e), "history": [key]})
    if a.replay:
        info = json.load(open(a.replay))
        print("obligation:", info.get("obligation"))
        for f in failures.values():
            print("still failing:", f["what"])
        return 1 if failures else 0
    res = {"evaluations": n, "distinct": n,
           "rule": "deriving operation x follow-up mutation x mutated side, on two hand-built documents (with / without default namespace); a case is one (derivation, mutation, side) triple",
           "failures_found": len(failures), "failures": list(failures.values())}
    if a.out:
        json.dump(res, open(a.out, "w"), indent=1)
    print("C12 native battery: %d cases, %d failing" % (n, len(failures)))
    for f in failures.values():
        print("  ", f["what"][:220])
    return 1 if failures else 0


if __name__ == "__main__":
    sys.exit(main())
