#!/usr/bin/env python
"""Native replay / small-scope search for C13 (exporting never mutates the document and is repeatable).
Bounded stand-in for the exporters' frames (their bodies - string formatting, lxml, rdflib, pydot, networkx -
are outside pyvc); never proof.

Scope: four hand-built documents (plain; default namespaces at both levels; bundles with clashing prefixes;
foreign-namespace names and every value kind) x every exporter and option combination of the property, each
applied once, twice, and after every other exporter; observed before/after: strict content in record order per
bundle, registered namespaces in registration order, default namespaces.  Repeatability: text of call 1 ==
text of call 2 == text of a second document built by the same calls (PROV-JSON, PROV-XML, PROV-N); isomorphic
graphs for RDF."""
import argparse
import datetime
import io
import itertools
import json
import sys

from prov.model import ProvDocument, Literal
from prov.identifier import Identifier, QualifiedName, Namespace
from prov.constants import XSD_INT

T1 = datetime.datetime(2022, 3, 4, 5, 6, 7)


def vkey(v):
    if isinstance(v, Literal):
        return ("lit", v.value, v.datatype.uri if v.datatype is not None else None, v.langtag)
    if isinstance(v, QualifiedName):
        return ("qn", v.uri, str(v))
    if isinstance(v, Identifier):
        return ("uri", v.uri)
    if isinstance(v, datetime.datetime):
        return ("dt", v.isoformat())
    return (type(v).__name__, v)


def rec_view(r):
    return (r.get_type().uri, str(r.identifier) if r.identifier is not None else None,
            r.identifier.uri if r.identifier is not None else None,
            tuple(sorted(((a.uri, str(a)), vkey(v)) for a, v in r.attributes)))


def ns_view(c):
    dn = c.get_default_namespace()
    return (tuple((n.prefix, n.uri) for n in c.get_registered_namespaces()), dn.uri if dn is not None else None,
            tuple(sorted((k, v.uri) for k, v in dict(c._namespaces).items())))


def snapshot(d):
    out = [("doc", tuple(rec_view(r) for r in d.get_records()), ns_view(d))]
    for b in d.bundles:
        out.append((str(b.identifier), tuple(rec_view(r) for r in b.get_records()), ns_view(b)))
    return tuple(out)


def build(kind):
    d = ProvDocument()
    d.add_namespace("ex", "http://ex/")
    if kind in ("defaults", "bundles"):
        d.set_default_namespace("http://docdefault/")
        d.entity("plainlocal", {"ex:v": 1})
    d.entity("ex:e1", {"ex:v": 1, "ex:s": "text", "ex:t": T1, "prov:label": "first", "prov:type": QualifiedName(Namespace("ex", "http://ex/"), "Kind")})
    d.entity("ex:e1", {"ex:v": 2, "prov:label": Literal("zweite", langtag="de")})
    d.activity("ex:a1", T1, None, {"ex:n": Literal("7", XSD_INT), "ex:u": Identifier("http://x/y")})
    d.agent("ex:ag1")
    d.generation("ex:e1", "ex:a1", T1, identifier="ex:g1", other_attributes={"prov:role": "writer"})
    d.usage("ex:a1", "ex:e1")
    d.association("ex:a1", "ex:ag1", "ex:plan1")
    d.derivation("ex:e2", "ex:e1", "ex:a1")
    d.membership("ex:c1", "ex:e1")
    if kind == "foreign":
        other = Namespace("zz", "http://zz/")
        d.entity(other["thing"], {other["attr"]: other["val"], "ex:f": 1.5, "ex:b": True})
        # a literal whose datatype lives in a namespace nothing has registered (the one kind of name the model does not register)
        d.entity("ex:typed", {"ex:shape": Literal("POINT(1 2)", Namespace("geo", "http://geo/")["wkt"])})
    if kind == "bundles":
        b = d.bundle("ex:b1")
        b.add_namespace("ex", "http://clash/")
        b.set_default_namespace("http://bundledefault/")
        b.entity("ex:inb", {"ex:v": 3})
        b.entity("bundlelocal")
        b2 = d.bundle("ex:b2")
        b2.entity("ex:e1", {"ex:w": 1})
        b2.entity("ex:e1", {"ex:w": 2})
        b2.usage("ex:a1", "ex:e1", T1)
        b2.entity("ex:typed", {"ex:shape": Literal("POINT(1 2)", Namespace("geo", "http://geo/")["wkt"])})
    return d


def exporters():
    """name -> (callable(doc) -> comparable text or None, kind)"""
    ex = {}
    for indent, sk in itertools.product((None, 2), (False, True)):
        kw = {}
        if indent is not None:
            kw["indent"] = indent
        if sk:
            kw["sort_keys"] = True
        ex["json%s" % kw] = (lambda d, kw=kw: d.serialize(format="json", **kw), "text")
    for ft in (False, True):
        ex["xml[force_types=%s]" % ft] = (lambda d, ft=ft: d.serialize(format="xml", force_types=ft), "text")
    ex["provn"] = (lambda d: d.serialize(format="provn"), "text")
    ex["get_provn"] = (lambda d: d.get_provn(), "text")
    for rf in ("trig", "turtle", "xml"):
        ex["rdf[%s]" % rf] = (lambda d, rf=rf: d.serialize(format="rdf", rdf_format=rf), "rdf:" + rf)
    ex["json-to-stream"] = (lambda d: (lambda s: (d.serialize(s, format="json"), s.getvalue())[1])(io.StringIO()), "text")

    def to_graph(d):
        from prov.graph import prov_to_graph
        g = prov_to_graph(d)
        return None
    ex["prov_to_graph"] = (to_graph, None)
    for ul, sea, sra, sn, direction in ((False, True, True, True, "BT"), (True, False, False, False, "LR"), (True, True, True, True, "TB")):
        def to_dot(d, ul=ul, sea=sea, sra=sra, sn=sn, direction=direction):
            from prov.dot import prov_to_dot
            return prov_to_dot(d, use_labels=ul, show_element_attributes=sea, show_relation_attributes=sra, show_nary=sn, direction=direction).to_string()
        ex["dot[labels=%s,ea=%s,ra=%s,nary=%s,%s]" % (ul, sea, sra, sn, direction)] = (to_dot, "text-dot")
    ex["=="] = (lambda d: (d == d, d == build("plain"), d != d) and None, None)
    ex["hash-records"] = (lambda d: [hash(r) for c in [d] + list(d.bundles) for r in c.get_records()] and None, None)
    ex["unified"] = (lambda d: d.unified() and None, None)
    ex["flattened"] = (lambda d: d.flattened() and None, None)
    ex["bundle.unified"] = (lambda d: [b.unified() for b in d.bundles] and None, None)
    return ex


def same_rdf(a, b, fmt):
    import rdflib
    from rdflib.compare import isomorphic
    cls = rdflib.ConjunctiveGraph if fmt == "trig" else rdflib.Graph
    g1, g2 = cls(), cls()
    g1.parse(data=a, format=fmt)
    g2.parse(data=b, format=fmt)
    if fmt == "trig":
        return len(g1) == len(g2) and isomorphic(rdflib.Graph().__iadd__(g1), rdflib.Graph().__iadd__(g2))
    return isomorphic(g1, g2)


def main():
    ap = argparse.ArgumentParser()
    ap.add_argument("--search", action="store_true")
    ap.add_argument("--replay")
    ap.add_argument("--tier", default="quick")
    ap.add_argument("--seed", type=int, default=0)
    ap.add_argument("--out")
    a = ap.parse_args()
    failures = {}
    n = 0
    EX = exporters()

    def fail(clause, what, key):
        failures.setdefault((clause, what.split(":")[0]), {"key": "%s|%s" % (clause, key), "kf": None, "clauses": [clause, "export-frame", "export-determinism"], "what": what, "history": [key]})

    for kind in ("plain", "defaults", "foreign", "bundles"):
        # (1) each exporter alone: frame + repeatability
        for name, (fn, how) in EX.items():
            n += 1
            key = "%s/%s" % (kind, name)
            try:
                d = build(kind)
                d_twin = build(kind)
                before = snapshot(d)
                out1 = fn(d)
                mid = snapshot(d)
                out2 = fn(d)
                after = snapshot(d)
                if mid != before:
                    fail("frame", "%s: the document changed during the export (first call)" % key, key)
                elif after != before:
                    fail("frame", "%s: the document changed during the second export call" % key, key)
                if how in ("text", "text-dot"):
                    if out1 != out2:
                        fail("repeatable", "%s: two calls returned different text" % key, key)
                    if fn(d_twin) != out1:
                        fail("repeatable", "%s: two documents built by the same calls export differently" % key, key)
                elif how and how.startswith("rdf:"):
                    if not same_rdf(out1, out2, how[4:]):
                        fail("repeatable", "%s: two calls returned non-isomorphic graphs" % key, key)
            except Exception as e:  # noqa
                fail("no-unexpected-exception", "%s: raised %r" % (key, e), key)
        # (2) every exporter after all the others, in two orders: the text must not depend on earlier exports
        names = list(EX)
        for order_name, order in (("forward", names), ("backward", names[::-1])):
            n += 1
            key = "%s/all-%s" % (kind, order_name)
            try:
                d = build(kind)
                fresh_text = {nm: EX[nm][0](build(kind)) for nm in names if EX[nm][1] == "text"}
                before = snapshot(d)
                for nm in order:
                    out = EX[nm][0](d)
                    if EX[nm][1] == "text" and out != fresh_text[nm]:
                        fail("repeatable", "%s: %s differs after earlier exports" % (key, nm), key)
                    if snapshot(d) != before:
                        fail("frame", "%s: document changed by %s" % (key, nm), key)
                        before = snapshot(d)
            except Exception as e:  # noqa
                fail("no-unexpected-exception", "%s: raised %r" % (key, e), key)
    if a.replay:
        info = json.load(open(a.replay))
        print("obligation:", info.get("obligation"))
        for f in failures.values():
            print("still failing:", f["what"])
        return 1 if failures else 0
    res = {"evaluations": n, "distinct": n,
           "rule": "4 hand-built documents x %d exporter/option combinations (each: twice + twin document) + all exporters in two orders" % len(EX),
           "samples": ["bundles/xml[force_types=True]", "foreign/dot[labels=True,ea=True,ra=True,nary=True,TB]"],
           "failures_found": len(failures), "failures": list(failures.values())}
    if a.out:
        json.dump(res, open(a.out, "w"), indent=1)
    print("C13 native battery: %d cases, %d failing" % (n, len(failures)))
    for f in failures.values():
        print("  ", f["clauses"][0], f["what"][:220])
    return 1 if failures else 0


if __name__ == "__main__":
    sys.exit(main())
