#!/usr/bin/env python
"""Native replay / small-scope search for C05 (records stay in normal form).  Replay step of the contract
check; never proof.

Scope: all 18 record kinds; every formal argument in each accepted representation (record object,
QualifiedName, 'prefix:local' text; datetime, ISO text); creation through new_record, the typed factory
methods and the element convenience methods; follow-up add_attributes (dict and pair-list form) with the
same value in another representation (must be a no-op) and with a different value (must raise
ProvException); set_time; add_asserted_type; non-formal attributes given natively and as typed literals.
"""
import argparse
import datetime
import itertools
import json
import random
import sys

from prov.model import (ProvDocument, ProvException, ProvRecord, Literal, PROV_REC_CLS, ProvActivity, ProvMembership)
from prov.identifier import QualifiedName, Identifier, Namespace
from prov.constants import (PROV_ATTRIBUTE_QNAMES, PROV_ATTRIBUTE_LITERALS, PROV_ATTRIBUTES, PROV_ATTR_ENTITY, PROV_ATTR_COLLECTION,
                            XSD_INT, XSD_LONG, XSD_DOUBLE, XSD_BOOLEAN, XSD_STRING, XSD_ANYURI, XSD_DATETIME, PROV_TYPE, PROV, PROV_MEMBERSHIP)

EX = Namespace("ex", "http://example.org/")
T1 = datetime.datetime(2020, 1, 2, 3, 4, 5)
T2 = datetime.datetime(2021, 6, 7, 8, 9, 10)


def nf_violations(rec, what):
    out = []
    for attr, values in rec._attributes.items():
        vals = list(values)
        if attr in PROV_ATTRIBUTES and len(vals) > 1 and not (isinstance(rec, ProvMembership) and attr == PROV_ATTR_ENTITY):
            out.append(("formal-single", "%s: %s holds %d values %r" % (what, attr, len(vals), vals)))
        for v in vals:
            if attr in PROV_ATTRIBUTE_QNAMES and not isinstance(v, QualifiedName):
                out.append(("stored-ok", "%s: reference attribute %s holds %r" % (what, attr, v)))
            if attr in PROV_ATTRIBUTE_LITERALS and not isinstance(v, datetime.datetime):
                out.append(("stored-ok", "%s: time attribute %s holds %r (%s)" % (what, attr, v, type(v).__name__)))
            if attr not in PROV_ATTRIBUTES:
                if isinstance(v, ProvRecord) or v is None:
                    out.append(("stored-ok", "%s: %s holds %r" % (what, attr, v)))
                if isinstance(v, Literal) and v.langtag is None and v.datatype in (XSD_INT, XSD_LONG, XSD_DOUBLE, XSD_BOOLEAN, XSD_STRING, XSD_ANYURI):
                    out.append(("stored-ok", "%s: %s holds an unconverted literal %r" % (what, attr, v)))
    return out


def doc():
    d = ProvDocument()
    d.add_namespace(EX)
    return d


def ref_forms(d, local, kind):
    """every accepted representation of a reference to ex:<local>"""
    rec = getattr(d, kind)("ex:" + local) if kind else None
    forms = [("text", "ex:" + local), ("qname", EX[local])]
    if rec is not None:
        forms.append(("record", rec))
    return forms


def time_forms(t):
    return [("datetime", t), ("iso", t.isoformat())]


FACTORIES = [
    # (method, kind of first arg, kind of second arg, has time)
    ("generation", "entity", "activity", True), ("usage", "activity", "entity", True),
    ("invalidation", "entity", "activity", True), ("start", "activity", "entity", True), ("end", "activity", "entity", True),
    ("communication", "activity", "activity", False), ("attribution", "entity", "agent", False),
    ("association", "activity", "agent", False), ("delegation", "agent", "agent", False),
    ("influence", "entity", "entity", False), ("derivation", "entity", "entity", False),
    ("specialization", "entity", "entity", False), ("alternate", "entity", "entity", False),
    ("membership", "entity", "entity", False),
]


def scenarios(tier):
    """yields (key, thunk) ; thunk returns a list of violations"""
    # 1. factories with every representation of the two main arguments and of the time
    for meth, k1, k2, has_time in FACTORIES:
        for i1, i2 in itertools.product(range(3), repeat=2):
            for tf in ((0, 1) if has_time else (None,)):
                def run(meth=meth, k1=k1, k2=k2, i1=i1, i2=i2, tf=tf, has_time=has_time):
                    d = doc()
                    a = ref_forms(d, "x1", k1)[i1]
                    b = ref_forms(d, "x2", k2)[i2]
                    kw = {}
                    if has_time and tf is not None:
                        kw["time"] = time_forms(T1)[tf][1]
                    r = getattr(d, meth)(a[1], b[1], **kw)
                    v = nf_violations(r, "%s(%s,%s,%s)" % (meth, a[0], b[0], tf))
                    # re-adding the same values in another representation is a no-op
                    fa = [x for x in r.FORMAL_ATTRIBUTES]
                    before = {k: set(vs) for k, vs in r._attributes.items()}
                    try:
                        r.add_attributes({fa[0]: ref_forms(d, "x1", None)[(i1 + 1) % 2][1]})
                        r.add_attributes([(fa[1], ref_forms(d, "x2", None)[(i2 + 1) % 2][1])])
                        if has_time and tf is not None:
                            r.add_attributes({fa[-1] if meth not in ("start", "end") else fa[3]: time_forms(T1)[1 - tf][1]})
                    except ProvException as e:
                        v.append(("same-value-no-op", "%s: re-adding the same value raised %r" % (meth, e)))
                    after = {k: set(vs) for k, vs in r._attributes.items() if vs}
                    if after != {k: vs for k, vs in before.items() if vs}:
                        v.append(("same-value-no-op", "%s: re-adding the same values changed the record" % meth))
                    # a second, different value must be refused
                    for attr, val in ((fa[0], "ex:other"), (fa[1], EX["other2"])) + (((fa[-1] if meth not in ("start", "end") else fa[3], T2),) if has_time and tf is not None else ()):
                        if isinstance(r, ProvMembership) and attr == PROV_ATTR_ENTITY:
                            continue
                        try:
                            r.add_attributes([(attr, val)])
                            v.append(("formal-single", "%s: a second value %r for %s was accepted" % (meth, val, attr)))
                        except ProvException:
                            pass
                    v += nf_violations(r, meth + " after additions")
                    return v
                yield ("factory:%s:%d%d%s" % (meth, i1, i2, tf), run)
    # 2. activities: constructor times, set_time in each representation
    for f1, f2 in itertools.product(range(2), repeat=2):
        def run(f1=f1, f2=f2):
            d = doc()
            a = d.activity("ex:a", time_forms(T1)[f1][1], time_forms(T2)[f2][1])
            v = nf_violations(a, "activity(%d,%d)" % (f1, f2))
            b = d.activity("ex:b")
            b.set_time(time_forms(T1)[f1][1], time_forms(T2)[f2][1])
            v += nf_violations(b, "set_time(%s,%s)" % (time_forms(T1)[f1][0], time_forms(T2)[f2][0]))
            return v
        yield ("activity:%d%d" % (f1, f2), run)
    # 3. non-formal attributes: typed literal vs native value must be stored identically
    pairs = [(Literal("42", XSD_INT), 42), (Literal("42", XSD_LONG), 42), (Literal("1.5", XSD_DOUBLE), 1.5),
             (Literal("true", XSD_BOOLEAN), True), (Literal("0", XSD_BOOLEAN), False), (Literal("abc", XSD_STRING), "abc"),
             (Literal("http://x/y", XSD_ANYURI), Identifier("http://x/y")), (Literal(T1.isoformat(), XSD_DATETIME), T1),
             (Literal("plain"), "plain")]
    # the same datatypes named through another prefix for the XML Schema namespace (what a reader hands over when a
    # text declares xs: or xsd1: for it): a datatype is its URI, not its spelling
    XS = Namespace("xs", XSD_INT.namespace.uri)
    pairs += [(Literal("42", XS["int"]), 42), (Literal("1.5", XS["double"]), 1.5), (Literal("true", XS["boolean"]), True),
              (Literal("abc", XS["string"]), "abc"), (Literal("http://x/y", XS["anyURI"]), Identifier("http://x/y")),
              (Literal(T1.isoformat(), XS["dateTime"]), T1)]
    for i, (lit, native) in enumerate(pairs):
        for via in ("ctor", "add-dict", "add-list"):
            def run(lit=lit, native=native, via=via):
                d = doc()
                if via == "ctor":
                    e1 = d.entity("ex:e1", {"ex:a": lit})
                    e2 = d.entity("ex:e2", {"ex:a": native})
                else:
                    e1, e2 = d.entity("ex:e1"), d.entity("ex:e2")
                    if via == "add-dict":
                        e1.add_attributes({EX["a"]: lit})
                        e2.add_attributes({"ex:a": native})
                    else:
                        e1.add_attributes([("ex:a", lit)])
                        e2.add_attributes([(EX["a"], native)])
                v = nf_violations(e1, "literal %r via %s" % (lit, via))
                s1 = sorted((type(x).__name__, repr(x)) for x in e1.get_attribute("ex:a"))
                s2 = sorted((type(x).__name__, repr(x)) for x in e2.get_attribute("ex:a"))
                if s1 != s2:
                    v.append(("typed-literal-becomes-native", "%r stored as %r, direct assignment stores %r" % (lit, s1, s2)))
                # adding both leaves one value
                e2.add_attributes({"ex:a": lit})
                if len(e2.get_attribute("ex:a")) != 1:
                    v.append(("typed-literal-becomes-native", "%r and %r are kept as two values" % (lit, native)))
                return v
            yield ("literal:%d:%s" % (i, via), run)
    # 4. several values for one formal attribute in a single call (dict with two spellings, pair list)
    def run_same_call():
        v = []
        d = doc()
        for how in ("pairs", "dict-two-spellings", "factory-extra"):
            try:
                if how == "pairs":
                    r = d.new_record(PROV_REC_CLS.__iter__().__next__(), "ex:e9", None, None)
                    g = d.generation("ex:e", "ex:a1")
                    g.add_attributes([("prov:activity", "ex:a2")])
                elif how == "dict-two-spellings":
                    g = d.generation("ex:e", None)
                    g.add_attributes({"prov:time": T1, QualifiedName(PROV, "time"): T2})
                else:
                    g = d.generation("ex:e", "ex:a1", other_attributes={"prov:activity": "ex:a2"})
                v.append(("formal-single", "two different values for one formal attribute accepted (%s): %r" % (how, g)))
            except ProvException:
                pass
        return v
    yield ("same-call", run_same_call)
    # 5. membership: the collection is single-valued
    def run_membership():
        d = doc()
        m = d.membership("ex:c1", "ex:e1")
        v = []
        try:
            m.add_attributes([(PROV_ATTR_COLLECTION, "ex:c2")])
            v.append(("formal-single", "membership accepted a second collection: %r" % sorted(map(str, m.get_attribute(PROV_ATTR_COLLECTION)))))
        except ProvException:
            pass
        return v + nf_violations(m, "membership")
    yield ("membership", run_membership)
    # 5b. membership: outside the single-call compatibility path (a call that also names prov:collection) prov:entity is
    # single-valued like every other formal attribute - a later call must not add a second member (seed C05-E)
    def run_membership_later():
        v = []
        for how, build in (("membership()", lambda d: d.membership("ex:c1", "ex:e1")),
                           ("hadMember()", lambda d: (d.collection("ex:c1").hadMember("ex:e1"), list(d.get_records(ProvMembership))[0])[1]),
                           ("new_record", lambda d: d.new_record(PROV_MEMBERSHIP, None, [(PROV_ATTR_COLLECTION, "ex:c1"), (PROV_ATTR_ENTITY, "ex:e1")]))):
            for form in ("qn-key-record-value", "qn-key-qn-value", "qn-key-str-value", "dict"):
                d = doc()
                m = build(d)
                e2 = d.entity("ex:e2")
                arg = {"qn-key-record-value": [(PROV_ATTR_ENTITY, e2)], "qn-key-qn-value": [(PROV_ATTR_ENTITY, e2.identifier)],
                       "qn-key-str-value": [(PROV_ATTR_ENTITY, "ex:e2")], "dict": {PROV_ATTR_ENTITY: e2}}[form]
                try:
                    m.add_attributes([(PROV_ATTR_ENTITY, "ex:e1")])      # the same value again: a no-op
                    m.add_attributes(arg)
                    v.append(("formal-single", "%s then add_attributes(%s): a second, different prov:entity was accepted in a later call: %r"
                              % (how, form, sorted(map(str, m.get_attribute(PROV_ATTR_ENTITY))))))
                except ProvException:
                    pass
                if len(m.get_attribute(PROV_ATTR_ENTITY)) != 1:
                    v.append(("formal-single", "%s/%s: prov:entity holds %d values" % (how, form, len(m.get_attribute(PROV_ATTR_ENTITY)))))
        return v
    yield ("membership-later-call", run_membership_later)
    # 6. asserted types and element convenience methods
    def run_conv():
        d = doc()
        e = d.entity("ex:e")
        a = d.activity("ex:a")
        ag = d.agent("ex:ag")
        e.wasGeneratedBy(a, T1.isoformat()).wasDerivedFrom("ex:e0", a).wasAttributedTo(ag)
        a.used(e, T1).wasAssociatedWith(ag).wasStartedBy(e, time=T1.isoformat()).wasEndedBy("ex:e", time=T2)
        ag.actedOnBehalfOf("ex:ag2", a)
        c = d.collection("ex:c")
        c.hadMember(e)
        rev = d.revision("ex:e2", e)
        v = []
        for r in d.get_records():
            v += nf_violations(r, "convenience:%s" % r)
        return v
    yield ("convenience", run_conv)


def main():
    ap = argparse.ArgumentParser()
    ap.add_argument("--search", action="store_true")
    ap.add_argument("--replay")
    ap.add_argument("--tier", default="quick")
    ap.add_argument("--seed", type=int, default=0)
    ap.add_argument("--out")
    a = ap.parse_args()
    scen = dict(scenarios(a.tier))
    if a.replay:
        info = json.load(open(a.replay))
        print("obligation:", info.get("obligation"))
        bad = 0
        for f in info.get("native_failing_inputs", []):
            v = scen[f["scenario"]]() if f.get("scenario") in scen else []
            print(f.get("scenario"), "->", v[:2] if v else "holds")
            bad += bool(v)
        if not info.get("native_failing_inputs"):
            print("no native failing input recorded; solver output:")
            for p in info.get("paths", []):
                print(" ", p["name"], p["status"], p.get("tried"))
        return 1 if bad else 0
    failures = {}
    n = 0
    for key, thunk in scen.items():
        n += 1
        try:
            v = thunk()
        except Exception as e:  # noqa
            v = [("no-unexpected-exception", "%s raised %r" % (key, e))]
        for clause, what in v:
            k = clause
            if k not in failures:
                alias = {"stored-ok": ["stored-ok", "/nf", "start-set", "end-set", "normalised"], "formal-single": ["formal-single", "/nf"],
                         "typed-literal-becomes-native": ["typed-literal-becomes-native", "normalised", "stored-ok"]}
                failures[k] = {"key": k, "kf": None, "clauses": alias.get(clause, [clause]), "what": what, "scenario": key, "history": [key]}
    res = {"evaluations": n, "distinct": n, "rule": "record kinds x argument representations x entry paths (see module docstring)",
           "failures_found": len(failures), "failures": list(failures.values())}
    if a.out:
        json.dump(res, open(a.out, "w"), indent=1)
    print("C05 native battery: %d scenarios, %d failing clauses" % (n, len(failures)))
    for f in failures.values():
        print("  ", f["clauses"], f["what"][:200])
    return 1 if failures else 0


if __name__ == "__main__":
    sys.exit(main())
