"""Independent readers of PROV-JSON and PROV-XML, written from the W3C member submission (PROV-JSON) and the
W3C note (PROV-XML) only.  They import nothing from the library (stdlib json / xml.etree only) and produce the
strict content structure of replay/common.py:  {bundle URI or "": sorted multiset of (type URI, identifier URI,
sorted multiset of (attribute URI, kind-aware value))}.

Content normal form (the data model's, C05): values typed xsd:string / xsd:int|long / xsd:double / xsd:boolean /
xsd:dateTime / xsd:anyURI / qualified name are the native kinds; any other datatype stays a typed literal;
a language-tagged string is a literal of type prov:InternationalizedString."""
import datetime
import io
import json
import xml.etree.ElementTree as ET
from collections import Counter

PROV = "http://www.w3.org/ns/prov#"
XSD = "http://www.w3.org/2001/XMLSchema#"
XSI = "http://www.w3.org/2001/XMLSchema-instance"
XMLNS = "http://www.w3.org/XML/1998/namespace"

# PROV-JSON / PROV-N relation names -> PROV-DM types (PROV-DM section 5, PROV-JSON section 2)
KINDS = {
    "entity": "Entity", "activity": "Activity", "agent": "Agent", "wasGeneratedBy": "Generation", "used": "Usage",
    "wasInformedBy": "Communication", "wasStartedBy": "Start", "wasEndedBy": "End", "wasInvalidatedBy": "Invalidation",
    "wasDerivedFrom": "Derivation", "wasAttributedTo": "Attribution", "wasAssociatedWith": "Association",
    "actedOnBehalfOf": "Delegation", "wasInfluencedBy": "Influence", "specializationOf": "Specialization",
    "alternateOf": "Alternate", "hadMember": "Membership", "mentionOf": "Mention",
}
REF_ATTRS = {"entity", "activity", "agent", "trigger", "starter", "ender", "informed", "informant", "generatedEntity", "usedEntity",
             "generation", "usage", "plan", "delegate", "responsible", "influencee", "influencer", "specificEntity", "generalEntity",
             "alternate1", "alternate2", "collection", "bundle"}
TIME_ATTRS = {"time", "startTime", "endTime"}
# PROV-XML extension elements (PROV-XML section 3): element -> (base kind, prov:type)
XML_SUBTYPES = {
    "person": ("agent", "Person"), "organization": ("agent", "Organization"), "softwareAgent": ("agent", "SoftwareAgent"),
    "plan": ("entity", "Plan"), "collection": ("entity", "Collection"), "emptyCollection": ("entity", "EmptyCollection"),
    "bundle": ("entity", "Bundle"),
    "wasRevisionOf": ("wasDerivedFrom", "Revision"), "wasQuotedFrom": ("wasDerivedFrom", "Quotation"),
    "hadPrimarySource": ("wasDerivedFrom", "PrimarySource"),
}
INT_TYPES = {"int", "long"}


class Unresolvable(Exception):
    pass


def parse_dt(text):
    t = text.strip()
    if t.endswith("Z"):
        t = t[:-1] + "+00:00"
    d = datetime.datetime.fromisoformat(t)
    off = d.utcoffset()
    return ("datetime", d.replace(tzinfo=None).isoformat(), None if off is None else off.total_seconds())


def typed(text, dt_uri, resolve):
    """value text + datatype URI -> kind-aware value"""
    if dt_uri == XSD + "string":
        return ("str", str(text))
    if dt_uri.startswith(XSD) and dt_uri[len(XSD):] in INT_TYPES:
        return ("int", int(str(text)))
    if dt_uri == XSD + "double":
        return ("float", repr(float(text)))
    if dt_uri == XSD + "boolean":
        # xsd:boolean lexical space: true, false, 1, 0 (case-sensitive); JSON true/false arrive as Python bools
        s = {True: "true", False: "false"}.get(text, str(text).strip()) if isinstance(text, bool) else str(text).strip()
        if s in ("true", "1"):
            return ("bool", True)
        if s in ("false", "0"):
            return ("bool", False)
        raise ValueError("not a boolean: %r" % (text,))
    if dt_uri == XSD + "dateTime":
        return parse_dt(str(text))
    if dt_uri == XSD + "anyURI":
        return ("Identifier", str(text))
    if dt_uri in (PROV + "QUALIFIED_NAME", XSD + "QName"):
        return ("QualifiedName", resolve(str(text)))
    return ("Literal", str(text) if not isinstance(text, bool) else str(text), dt_uri, None)


def finish(records):
    return tuple(sorted(Counter(records).items(), key=repr))


def attrs_key(pairs):
    return tuple(sorted(Counter(pairs).items(), key=repr))


# ------------------------------------------------------------------------------------------------ PROV-JSON
def read_json(text):
    doc = json.loads(text)
    out = {}
    top_prefixes = dict(doc.get("prefix", {}))

    def container(c, scopes):
        scopes = [dict(c.get("prefix", {}))] + scopes

        def resolve(name):
            if name.startswith("_:"):
                return None
            if ":" in name:
                p, local = name.split(":", 1)
                for s in scopes:
                    if p in s and p != "default":
                        return s[p] + local
                if p == "prov":
                    return PROV + local
                if p == "xsd":
                    return XSD + local
                raise Unresolvable("the name \"%s\" uses a prefix that is not declared in scope" % name)
            for s in scopes:
                if "default" in s:
                    return s["default"] + name
            raise Unresolvable("the name \"%s\" uses a prefix that is not declared in scope" % name)

        def value(v):
            if isinstance(v, bool):
                return ("bool", v)
            if isinstance(v, int):
                return ("int", v)
            if isinstance(v, float):
                return ("float", repr(v))
            if isinstance(v, str):
                return ("str", v)
            if isinstance(v, dict):
                if "lang" in v:
                    return ("Literal", v["$"], PROV + "InternationalizedString", v["lang"])
                if "type" in v:
                    return typed(v["$"], resolve(v["type"]), resolve)
                return value(v["$"])
            raise ValueError("unexpected JSON value %r" % (v,))

        recs = []
        for kind, table in c.items():
            if kind in ("prefix", "bundle"):
                continue
            if kind not in KINDS:
                raise ValueError("unknown PROV-JSON record kind %r" % kind)
            for rid, body in table.items():
                for obj in (body if isinstance(body, list) else [body]):
                    pairs = []
                    for k, v in obj.items():
                        au = resolve(k)
                        vs = v if isinstance(v, list) else [v]
                        for one in vs:
                            if au.startswith(PROV) and au[len(PROV):] in REF_ATTRS:
                                pairs.append((au, ("QualifiedName", resolve(one if isinstance(one, str) else one["$"]))))
                            elif au.startswith(PROV) and au[len(PROV):] in TIME_ATTRS:
                                pairs.append((au, parse_dt(one if isinstance(one, str) else one["$"])))
                            else:
                                pairs.append((au, value(one)))
                    ents = [p_ for p_ in pairs if p_[0] == PROV + "entity"]
                    if kind == "hadMember" and len(ents) > 1:
                        # PROV-JSON: a membership listing several entities stands for one hadMember per entity
                        rest = [p_ for p_ in pairs if p_[0] != PROV + "entity"]
                        for e_ in ents:
                            recs.append((PROV + KINDS[kind], resolve(rid) if e_ is ents[0] else None, attrs_key(rest + [e_])))
                    else:
                        recs.append((PROV + KINDS[kind], resolve(rid), attrs_key(pairs)))
        return recs, resolve

    recs, resolve_top = container({k: v for k, v in doc.items() if k != "bundle"}, [])
    out[""] = finish(recs)
    for bid, b in doc.get("bundle", {}).items():
        brecs, _ = container(b, [top_prefixes])
        out[resolve_top(bid)] = finish(brecs)
    return out


# ------------------------------------------------------------------------------------------------ PROV-XML
def _parse_with_ns(text):
    """ElementTree with the in-scope prefix map recorded on every element"""
    data = text.encode("utf-8") if isinstance(text, str) else text
    stack = [{"xml": XMLNS}]
    pending = {}
    root = None
    nsmaps = {}
    for ev, x in ET.iterparse(io.BytesIO(data), events=("start-ns", "start", "end")):
        if ev == "start-ns":
            pending[x[0] or None] = x[1]
        elif ev == "start":
            m = dict(stack[-1])
            m.update(pending)
            pending = {}
            stack.append(m)
            nsmaps[id(x)] = m
            if root is None:
                root = x
        else:
            stack.pop()
    return root, nsmaps


def read_xml(text):
    root, nsmaps = _parse_with_ns(text)
    if root.tag != "{%s}document" % PROV.rstrip("#") and root.tag != "{%s}document" % PROV:
        raise ValueError("root element is %s" % root.tag)

    def split(tag):
        if tag.startswith("{"):
            ns, local = tag[1:].split("}", 1)
            return ns, local
        return None, tag

    def resolver(el):
        m = nsmaps[id(el)]

        def resolve(name):
            name = name.strip()
            if ":" in name:
                p, local = name.split(":", 1)
                if p in m:
                    u = m[p]
                    if u == XSD.rstrip("#"):
                        u = XSD
                    return u + local
                raise Unresolvable("the name \"%s\" uses a prefix that is not declared in scope" % name)
            if None in m:
                return m[None] + name
            raise Unresolvable("the name \"%s\" uses a prefix that is not declared in scope" % name)
        return resolve

    def container(el):
        recs = []
        bundles = []
        for rec in el:
            ns, local = split(rec.tag)
            if ns != PROV:
                raise ValueError("record element outside the PROV namespace: %s" % rec.tag)
            if local == "bundleContent":
                bundles.append(rec)
                continue
            extra = []
            kind = local
            if local in XML_SUBTYPES:
                kind, st = XML_SUBTYPES[local]
                extra.append((PROV + "type", ("QualifiedName", PROV + st)))
            if kind not in KINDS:
                raise ValueError("unknown PROV-XML record element %r" % local)
            res = resolver(rec)
            rid = rec.get("{%s}id" % PROV)
            pairs = list(extra)
            for ch in rec:
                cns, cl = split(ch.tag)
                au = (cns or "") + cl
                cres = resolver(ch)
                ref = ch.get("{%s}ref" % PROV)
                xt = ch.get("{%s}type" % XSI)
                lang = ch.get("{%s}lang" % XMLNS)
                textv = ch.text if ch.text is not None else ""
                if cns == PROV and cl in REF_ATTRS and ref is not None:
                    pairs.append((au, ("QualifiedName", cres(ref))))
                elif cns == PROV and cl in TIME_ATTRS:
                    pairs.append((au, parse_dt(textv)))
                elif lang is not None:
                    pairs.append((au, ("Literal", textv, PROV + "InternationalizedString", lang)))
                elif xt is not None:
                    pairs.append((au, typed(textv, cres(xt), cres)))
                else:
                    pairs.append((au, ("str", textv)))
            ents = [p_ for p_ in pairs if p_[0] == PROV + "entity"]
            if kind == "hadMember" and len(ents) > 1:
                # PROV-XML: several prov:entity children of hadMember stand for one membership per entity
                rest = [p_ for p_ in pairs if p_[0] != PROV + "entity"]
                for e_ in ents:
                    recs.append((PROV + KINDS[kind], res(rid) if rid is not None and e_ is ents[0] else None, attrs_key(rest + [e_])))
            else:
                recs.append((PROV + KINDS[kind], res(rid) if rid is not None else None, attrs_key(pairs)))
        return recs, bundles

    out = {}
    recs, bundles = container(root)
    out[""] = finish(recs)
    for b in bundles:
        brecs, inner = container(b)
        if inner:
            raise ValueError("nested bundleContent")
        out[resolver(b)(b.get("{%s}id" % PROV))] = finish(brecs)
    return out
