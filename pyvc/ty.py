"""Type descriptors of symbolic values and their SMT sorts (DESIGN 2.3)."""


class T:
    __slots__ = ("kind", "args")

    def __init__(self, kind, *args):
        self.kind = kind
        self.args = args

    def __eq__(self, o):
        return isinstance(o, T) and self.kind == o.kind and self.args == o.args

    def __ne__(self, o):
        return not self == o

    def __hash__(self):
        return hash((self.kind, self.args))

    def __repr__(self):
        if not self.args:
            return self.kind
        return "%s[%s]" % (self.kind, ",".join(map(repr, self.args)))


STR = T("str")
INT = T("int")
BOOL = T("bool")
NONE = T("none")  # the literal None before it is coerced into an Opt
NS = T("Ns")  # prov.identifier.Namespace   (immutable value; _cache is view-invisible)
QN = T("QN")  # prov.identifier.QualifiedName
IDENT = T("Ident")  # prov.identifier.Identifier that is not a QualifiedName
LIT = T("Lit")  # prov.model.Literal
VAL = T("Val")  # universal value
FLT = T("Flt")  # float (uninterpreted)
DT = T("DT")  # datetime.datetime (uninterpreted)
BYTES = T("bytes")
CLS = T("cls")  # a class object of the package (its id in the class table)
HANDLE = T("handle")  # an open file / stream object, modelled by an integer descriptor
JREP = T("jrep")  # value-level PROV-JSON representation: a plain JSON scalar or an object {"$", "type"?, "lang"?}
PYOBJ = T("pyobj")  # python-level constant (function, class, module, ...)
EXC = T("exc")


def Opt(t):
    if t.kind == "opt":
        return t
    return T("opt", t)


def Ref(cls):
    return T("ref", cls)


def Map(k, v):
    return T("map", k, v)


def SetT(t):
    return T("set", t)


def Seq(t):
    return T("seq", t)


OSET = T("oset")  # python set of record objects
RKEY = T("rkey")
VSET = T("vset")  # python set of attribute values (canonical key + representative + size)


def QMap(v):
    """python dict keyed by QualifiedName (hash/== by URI), remembering the key objects"""
    return T("qmap", v)


def Tup(*ts):
    return T("tuple", *ts)


VALUE_CLASSES = {
    "Namespace": NS,
    "QualifiedName": QN,
    "Identifier": IDENT,
    "Literal": LIT,
}


def mangle(t):
    if not t.args:
        return {"str": "Str", "int": "Int", "bool": "Bool", "Ident": "Ident"}.get(
            t.kind, t.kind
        )
    if t.kind == "ref":
        return "Ref"
    return t.kind.capitalize() + "_" + "_".join(mangle(a) for a in t.args)


def total_map_value(v):
    """defaultdict(set)/defaultdict(list): absent == empty, so the map is total."""
    return v.kind in ("set", "seq", "vset")


class Sorts:
    """Registry of on-demand monomorphic sorts (Opt_X, Tup_X_Y)."""

    def __init__(self):
        self.decls = []  # SMT declarations in dependency order
        self.known = set()

    def sort(self, t):
        k = t.kind
        if k == "str":
            return "String"
        if k == "int":
            return "Int"
        if k == "bool":
            return "Bool"
        if k == "Ns":
            return "Ns"
        if k == "QN":
            return "QN"
        if k == "Ident":
            return "String"
        if k == "Lit":
            return "Lit"
        if k == "Val":
            return "Val"
        if k == "Flt":
            return "Flt"
        if k == "DT":
            return "DT"
        if k == "bytes":
            return "Bytes"
        if k in ("ref", "cls", "handle"):
            return "Int"
        if k == "opt":
            inner = self.sort(t.args[0])
            name = "Opt_" + mangle(t.args[0])
            if name not in self.known:
                self.known.add(name)
                m = mangle(t.args[0])
                self.decls.append(
                    "(declare-datatypes ((%s 0)) (((none_%s) (some_%s (the_%s %s)))))"
                    % (name, m, m, m, inner)
                )
            return name
        if k == "map":
            kk, vv = t.args
            if total_map_value(vv):
                return "(Array %s %s)" % (self.sort(kk), self.sort(vv))
            return "(Array %s %s)" % (self.sort(kk), self.sort(Opt(vv)))
        if k == "tarray":
            return "(Array %s %s)" % (self.sort(t.args[0]), self.sort(t.args[1]))
        if k == "jrep":
            if "JRep" not in self.known:
                self.known.add("JRep")
                self.sort(Opt(STR))
                self.decls.append("(declare-datatypes ((JRep 0)) (((JPlain (jplain Val)) (JObj (jdollar Val) (jtype Opt_Str) (jlang Opt_Str)))))")
            return "JRep"
        if k == "vset":
            return "VSet"
        if k == "oset":
            return "OSet"
        if k == "rkey":
            return "RKey"
        if k == "qmap":
            vv = t.args[0]
            name = "QMap_" + mangle(vv)
            if name not in self.known:
                self.known.add(name)
                inner = self.sort(vv) if total_map_value(vv) else self.sort(Opt(vv))
                self.decls.append(
                    "(declare-datatypes ((%s 0)) (((mk_%s (qm_tab_%s (Array String %s)) (qm_key_%s (Array String QN))))))"
                    % (name, name, mangle(vv), inner, mangle(vv)))
            return name
        if k == "set":
            return "(Array %s Bool)" % self.sort(t.args[0])
        if k == "seq":
            return "(Seq %s)" % self.sort(t.args[0])
        if k == "tuple":
            name = "Tup_" + "_".join(mangle(a) for a in t.args)
            if name not in self.known:
                self.known.add(name)
                fields = " ".join(
                    "(%s_%d %s)" % (name, i, self.sort(a)) for i, a in enumerate(t.args)
                )
                self.decls.append(
                    "(declare-datatypes ((%s 0)) (((mk_%s %s))))" % (name, name, fields)
                )
            return name
        raise TypeError("no SMT sort for type %r" % (t,))

    # Opt helpers -------------------------------------------------------
    def none(self, inner):
        self.sort(Opt(inner))
        return "none_" + mangle(inner)

    def some(self, inner, term):
        self.sort(Opt(inner))
        return "(some_%s %s)" % (mangle(inner), term)

    def the(self, inner, term):
        self.sort(Opt(inner))
        # peephole: (the (some x)) = x
        pre = "(some_%s " % mangle(inner)
        if term.startswith(pre) and term.endswith(")") and _balanced(term[len(pre):-1]):
            return term[len(pre):-1]
        return "(the_%s %s)" % (mangle(inner), term)

    def is_none(self, inner, term):
        self.sort(Opt(inner))
        m = mangle(inner)
        if term == "none_" + m:
            return "true"
        if term.startswith("(some_%s " % m):
            return "false"
        return "((_ is none_%s) %s)" % (m, term)

    def empty_set(self, elem):
        return "((as const %s) false)" % self.sort(SetT(elem))

    def empty_map(self, k, v):
        s = self.sort(Map(k, v))
        if total_map_value(v):
            if v.kind == "set":
                return "((as const %s) %s)" % (s, self.empty_set(v.args[0]))
            if v.kind == "vset":
                return "((as const %s) (mkVSet ((as const (Array Val Bool)) false) ((as const (Array Val Val)) VNone) 0))" % s
            return "((as const %s) (as seq.empty %s))" % (s, self.sort(v))
        return "((as const %s) %s)" % (s, self.none(v))


def qm_names(vv):
    m = mangle(vv)
    return "mk_QMap_" + m, "qm_tab_" + m, "qm_key_" + m


def _balanced(s):
    d = 0
    for ch in s:
        if ch == "(":
            d += 1
        elif ch == ")":
            d -= 1
            if d < 0:
                return False
    return d == 0
