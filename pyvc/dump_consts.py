"""Run under the repository's own interpreter (NATIVE_PY) with PYTHONPATH=<repo>/src.

Dumps the finite module-level tables of the real modules as JSON on stdout, so that
they enter the verification conditions as ground definitions (DESIGN 2.1 step 2).
This is evaluation of closed finite expressions by CPython itself, not a model.
"""
import datetime
import importlib
import json
import sys
import types


def enc(v, depth=0):
    from prov.identifier import Identifier, QualifiedName, Namespace

    if depth > 6:
        return {"k": "opaque", "repr": repr(v)[:80]}
    if v is None:
        return {"k": "none"}
    if isinstance(v, bool):
        return {"k": "bool", "v": v}
    if isinstance(v, int):
        return {"k": "int", "v": v}
    if isinstance(v, float):
        return {"k": "float", "v": repr(v)}
    if isinstance(v, str):
        return {"k": "str", "v": v}
    if isinstance(v, Namespace):
        return {"k": "Ns", "prefix": v.prefix, "uri": v.uri}
    if isinstance(v, QualifiedName):
        return {
            "k": "QN",
            "prefix": v.namespace.prefix,
            "nsuri": v.namespace.uri,
            "local": v.localpart,
        }
    if isinstance(v, Identifier):
        return {"k": "Ident", "uri": v.uri}
    if isinstance(v, tuple):
        return {"k": "tuple", "v": [enc(x, depth + 1) for x in v]}
    if isinstance(v, list):
        return {"k": "list", "v": [enc(x, depth + 1) for x in v]}
    if isinstance(v, (set, frozenset)):
        items = [enc(x, depth + 1) for x in v]
        items.sort(key=lambda d: json.dumps(d, sort_keys=True))
        return {"k": "set", "v": items}
    if isinstance(v, dict):
        return {
            "k": "dict",
            "v": [[enc(a, depth + 1), enc(b, depth + 1)] for a, b in v.items()],
        }
    if isinstance(v, type):
        return {"k": "class", "module": v.__module__, "name": v.__qualname__}
    if isinstance(v, (types.FunctionType, types.BuiltinFunctionType)):
        return {
            "k": "func",
            "module": getattr(v, "__module__", None),
            "name": getattr(v, "__qualname__", repr(v)),
        }
    if isinstance(v, types.ModuleType):
        return {"k": "module", "name": v.__name__}
    return {"k": "opaque", "repr": repr(v)[:80], "type": type(v).__name__}


def main():
    out = {}
    for modname in sys.argv[1:]:
        m = importlib.import_module(modname)
        d = {}
        for name, val in list(vars(m).items()):
            if name.startswith("__"):
                continue
            d[name] = enc(val)
        classes = {}
        for name, val in list(vars(m).items()):
            if isinstance(val, type) and val.__module__ == modname:
                ca = {}
                for an, av in vars(val).items():
                    if an.startswith("__") or callable(av) or isinstance(
                        av, (property, staticmethod, classmethod)
                    ):
                        continue
                    ca[an] = enc(av)
                classes[name] = {
                    "attrs": ca,
                    "mro": [c.__module__ + "." + c.__qualname__ for c in val.__mro__],
                }
        out[modname] = {"globals": d, "classes": classes}
    json.dump(out, sys.stdout)


if __name__ == "__main__":
    main()
