"""Driver: symbolic execution of contracts and lemmas -> obligations -> solvers -> verdicts."""
import ast
import json
import os
import sys
import time
import traceback

from . import VERIF
from . import ty as T
from .core import Ctx, State, SV, Unsupported
from .load import Repo
from .spec import Specs
from .sx import Exec
from .calls import verify_contract
from . import solve


class UnitResult:
    def __init__(self, name, kind):
        self.name = name
        self.kind = kind
        self.cx = None
        self.error = None
        self.obligations = []
        self.sx_time = 0.0

    @property
    def ok(self):
        return self.error is None


def make_ctx(repo, specs, label, prune=True):
    cx = Ctx(repo, specs, label)
    if prune:
        cx.pruner = solve.z3_pruner()
    return cx


def run_contract(repo, specs, c, prune=True):
    ur = UnitResult(c.target + ("#" + c.variant if getattr(c, "variant", None) else ""), "contract")
    cx = make_ctx(repo, specs, ur.name, prune)
    ur.cx = cx
    t0 = time.time()
    try:
        ex = Exec(cx)
        verify_contract(ex, c)
        stale = sorted(set(c.asserts) - cx.__dict__.get("assert_hits", set())) if getattr(c, "asserts", None) else []
        if stale:
            # an in-body assertion is keyed by the text of the statement it precedes: when no statement matches any
            # more, the contract is out of date - an engine error, never a verdict about the property
            raise Unsupported("contract out of date: no statement %r in %s for its in-body assertion" % (stale[0], c.target))
        if cx.exits == 0:
            raise Unsupported("no exit of %s is reachable under its precondition (vacuous contract)" % c.target)
    except Unsupported as e:
        ur.error = "unsupported: %s" % e
    except RecursionError:
        ur.error = "engine: recursion limit"
    except Exception as e:  # engine bug: never a violation
        ur.error = "engine: %s\n%s" % (e, traceback.format_exc()[-1500:])
    ur.sx_time = time.time() - t0
    ur.obligations = cx.obligations
    return ur


def run_lemma(repo, specs, lem, prune=False):
    ur = UnitResult("lemma:" + lem.name, "lemma")
    cx = make_ctx(repo, specs, ur.name, prune)
    ur.cx = cx
    t0 = time.time()
    try:
        ex = Exec(cx)
        ex.reveals = set(lem.reveals)
        env = {n: cx.fresh(n, t) for n, t in lem.params}
        st = State(env, {}, spec=True)
        for n, t in lem.params:
            if t.kind == "ref":
                st = st.assume(ex.cls_test(env[n].t, t.args[0]))
        for ln, le in lem.let:
            st = st.bind(ln, ex.spec_eval(le, st))
        for a in lem.assumes:
            st = st.assume(ex.spec_bool(a, st))
        for name, e in lem.proves:
            cx.oblige("lemma:%s/%s" % (lem.name, name), st, ex.spec_bool(e, st),
                      {"kind": "lemma", "clause": ast.unparse(e)[:200]})
    except Unsupported as e:
        ur.error = "unsupported: %s" % e
    except Exception as e:
        ur.error = "engine: %s\n%s" % (e, traceback.format_exc()[-1500:])
    ur.sx_time = time.time() - t0
    ur.obligations = cx.obligations
    return ur


def load_specs(files=None):
    specs = Specs()
    d = os.path.join(VERIF, "contracts")
    if files is None:
        specs.load_dir(d)
    else:
        for f in files:
            specs.load_file(os.path.join(d, f))
    return specs


def main(argv):
    import argparse

    ap = argparse.ArgumentParser()
    ap.add_argument("targets", nargs="*")
    ap.add_argument("--timeout", type=float, default=10.0)
    ap.add_argument("--dump", default=None, help="directory for the SMT files")
    ap.add_argument("--no-prune", action="store_true")
    ap.add_argument("-v", action="store_true")
    a = ap.parse_args(argv)
    sys.setrecursionlimit(20000)
    repo = Repo()
    specs = load_specs()
    units = []
    for tgt, c in specs.contracts.items():
        if c.assume_only:
            continue
        if a.targets and not any(t in tgt for t in a.targets):
            continue
        units.append(run_contract(repo, specs, c, prune=not a.no_prune))
    for name, lem in specs.lemmas.items():
        if a.targets and not any(t in "lemma:" + name for t in a.targets):
            continue
        units.append(run_lemma(repo, specs, lem))
    bad = 0
    for ur in units:
        if not ur.ok:
            print("ENGINE-ERROR %s: %s" % (ur.name, ur.error))
            bad += 1
            continue
        dt = solve.discharge(ur.cx, ur.obligations, a.timeout)
        n_ok = sum(1 for o in ur.obligations if o.result["status"] == "unsat")
        print("%-70s %3d/%3d obligations (+%d trivial)  sx %.1fs solve %.1fs  dead=%d exits=%d" % (
            ur.name, n_ok, len(ur.obligations), len(ur.cx.trivial), ur.sx_time, dt, ur.cx.dead_paths, ur.cx.exits))
        for i, o in enumerate(ur.obligations):
            if o.result["status"] != "unsat" or a.v:
                print("   %-8s %s  %s" % (o.result["status"], o.name, o.result.get("tried")))
            if a.dump:
                os.makedirs(a.dump, exist_ok=True)
                fn = os.path.join(a.dump, "%s__%d.smt2" % (ur.name.replace("/", "_").replace(":", "_"), i))
                open(fn, "w").write("; %s\n%s\n" % (o.name, ur.cx.query(o)))
        for n in ur.cx.notes[:5]:
            print("   note:", n)
    return 3 if bad else 0


if __name__ == "__main__":
    sys.exit(main(sys.argv[1:]))
