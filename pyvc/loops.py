"""Loop rule (DESIGN 2.5): invariants from the sidecar contract, no unrolling bound.

Iteration over python-level constant tuples is unrolled exactly (their length is a constant of
the working tree).  Iteration over symbolic containers uses an abstract enumeration: a fresh
length n and a fresh bijection index<->element, i.e. *some* fixed order (no particular one)."""
import ast
import os

from . import ty as T
from .core import SV, PyV, ExcVal, Unsupported
from .smt import AND, OR, NOT, ITE, EQ, IMPLIES, ilit
from .builtins import MUTATORS


def loop_id(fn_node, loop_node):
    loops = []

    def walk(n):
        for c in ast.iter_child_nodes(n):
            if isinstance(c, (ast.FunctionDef, ast.Lambda)):
                continue
            if isinstance(c, (ast.For, ast.While)):
                loops.append(c)
            walk(c)

    walk(fn_node)
    loops.sort(key=lambda n: (n.lineno, n.col_offset))
    for i, l in enumerate(loops):
        if l is loop_node:
            return "L%d" % (i + 1)
    raise Unsupported("loop not found in its function", loop_node)


def assigned_names(body):
    out = set()

    def walk(n):
        if isinstance(n, (ast.FunctionDef, ast.Lambda)):
            return
        if isinstance(n, ast.Name) and isinstance(n.ctx, ast.Store):
            out.add(n.id)
        if isinstance(n, ast.Call) and isinstance(n.func, ast.Attribute) and n.func.attr in MUTATORS:
            base = n.func.value
            while isinstance(base, ast.Subscript):
                base = base.value
            if isinstance(base, ast.Name):
                out.add(base.id)
        for c in ast.iter_child_nodes(n):
            walk(c)

    for s in body:
        walk(s)
    return out


def written_fields(ex, body):
    """field names possibly written by the loop body (syntactic over-approximation)"""
    fields = set()

    def base_field(t):
        while isinstance(t, ast.Subscript):
            t = t.value
        if isinstance(t, ast.Attribute):
            return t.attr
        if isinstance(t, ast.Name) and t.id == "self":
            return "<dict>"
        return None

    def walk(n):
        if isinstance(n, (ast.FunctionDef, ast.Lambda)):
            return
        if isinstance(n, (ast.Assign, ast.AugAssign, ast.AnnAssign)):
            targets = n.targets if isinstance(n, ast.Assign) else [n.target]
            for t in targets:
                for tt in (t.elts if isinstance(t, (ast.Tuple, ast.List)) else [t]):
                    f = base_field(tt) if not isinstance(tt, ast.Name) else None
                    if f:
                        fields.add(f)
        if isinstance(n, ast.Call) and isinstance(n.func, ast.Attribute):
            if n.func.attr in MUTATORS:
                f = base_field(n.func.value)
                if f:
                    fields.add(f)
            for tgt, c in ex.specs.contracts.items():
                if tgt.split(".")[-1] == n.func.attr:
                    for _, fs in c.modifies:
                        fields.update(fs)
                    for _, f, _ in c.ghost_sets:
                        fields.add(f)
        if isinstance(n, ast.Call) and isinstance(n.func, ast.Name):
            for tgt, c in ex.specs.contracts.items():
                if tgt.split(".")[-1] == n.func.id:
                    for _, fs in c.modifies:
                        fields.update(fs)
        for c in ast.iter_child_nodes(n):
            walk(c)

    for s in body:
        walk(s)
    keys = []
    for cname, sc in ex.specs.schemas.items():
        for f in fields:
            if f == "<dict>" and sc.dict_of is not None:
                keys.append(((cname, "<dict>"), T.Map(*sc.dict_of)))
            elif sc.field_type(f) is not None and sc.field_type(f) != T.PYOBJ:
                keys.append(((cname, f), sc.field_type(f)))
    return keys


def havoc(ex, st, body, extra_names=()):
    cx = ex.cx
    env = dict(st.env)
    for n in sorted(assigned_names(body) | set(extra_names)):
        if n in env:
            v = env[n]
            if isinstance(v, SV) and v.ty != T.NONE:
                env[n] = cx.fresh("lv_" + n, v.ty)
            elif isinstance(v, SV):
                raise Unsupported("loop assigns %s whose type before the loop is None: declare it" % n)
            else:
                raise Unsupported("loop re-assigns python-level variable %s" % n)
    s = st.copy(env=env)
    for key, ft in written_fields(ex, body):
        nm = cx.fresh_sort("LH_%s_%s" % (key[0], key[1].strip("<>_")), "(Array Int %s)" % cx.sorts.sort(ft))
        s = s.with_heap(key, nm)
    return s


def invariants_for(ex, st, node):
    c = getattr(ex, "current_contract", None)
    lid = loop_id(st.fn.node, node)
    if c is None or ex.repo.func(c.target.split('#')[0]) is not st.fn:
        raise Unsupported("loop %s in %s: no contract in scope carries its invariant" % (lid, st.fn.qualname), node)
    return lid, c.invariants.get(lid, [])


def check_invs(ex, invs, st, label, lid, extra_env):
    ff = getattr(ex, "frame_formulas", None)
    if ff is not None and label != "init":
        # automatic loop invariant: the function's modifies clause holds at every iteration boundary
        for key, g in ff(st):
            ex.cx.oblige("%s/%s:frame:%s.%s/%s" % (_short(ex.current_contract.target), lid, key[0], key[1], label), st, g,
                         {"kind": "loop-frame", "function": ex.current_contract.target})
    pre = ex.pre_state
    env = dict(st.env)
    env.update(extra_env)
    ps = st.copy(env=env, spec=True, old=pre)
    for name, e in invs:
        g = ex.spec_bool(e, ps)
        ex.cx.oblige("%s/%s:%s/%s" % (_short(ex.current_contract.target), lid, name, label), st, g,
                     {"kind": "loop-invariant", "function": ex.current_contract.target})
        # invariants are proved in the order they are listed; an earlier one is a lemma for the later ones
        # (proving A, then A => B, proves A and B)
        if g != "true" and os.environ.get("PYVC_CHAIN") == "1":   # off by default: the extra hypotheses slow other proofs down
            st = st.assume(g)
            ps = st.copy(env=env, spec=True, old=pre)


def assume_invs(ex, invs, st, extra_env):
    ff = getattr(ex, "frame_formulas", None)
    if ff is not None:
        st = st.assume(*[g for _, g in ff(st)])
    pre = ex.pre_state
    env = dict(st.env)
    env.update(extra_env)
    ps = st.copy(env=env, spec=True, old=pre)
    return st.assume(*[ex.spec_bool(e, ps) for _, e in invs])


def _short(q):
    return ".".join(q.split(".")[2:]) if q.startswith("prov.") else q


def enumeration(ex, it, st, node):
    """abstract enumeration of a symbolic iterable -> (n_term, elem(i_term)->value, assumptions)"""
    cx = ex.cx
    S = cx.sorts
    if isinstance(it, SV) and it.ty.kind == "seq":
        ax = ["(forall ((i Int)) (=> (and (<= 0 i) (< i (seq.len %s))) (seq.contains %s (seq.unit (seq.nth %s i)))))" % (it.t, it.t, it.t)]
        return "(seq.len %s)" % it.t, (lambda i: SV("(seq.nth %s %s)" % (it.t, i), it.ty.args[0])), ax
    if isinstance(it, SV) and it.ty.kind == "qmap":
        it = PyV("mapkeys", it)
    if isinstance(it, SV) and it.ty.kind == "oset":
        u = next(cx.counter)
        at, idx = "okat!%d" % u, "okidx!%d" % u
        cx.funs.append("(declare-fun %s (Int) RKey)" % at)
        cx.funs.append("(declare-fun %s (RKey) Int)" % idx)
        n = "(os_n %s)" % it.t
        ax = [
            "(forall ((i Int)) (=> (and (<= 0 i) (< i %s)) (and (select (os_has %s) (%s i)) (= (%s (%s i)) i))))"
            % (n, it.t, at, idx, at),
            "(forall ((c RKey)) (=> (select (os_has %s) c) (and (<= 0 (%s c)) (< (%s c) %s) (= (%s (%s c)) c))))"
            % (it.t, idx, idx, n, at, idx),
        ]
        return n, (lambda i: SV("(select (os_rep %s) (%s %s))" % (it.t, at, i), T.Ref("ProvRecord"))), ax
    if isinstance(it, SV) and it.ty.kind == "vset":
        u = next(cx.counter)
        at, idx = "vsat!%d" % u, "vsidx!%d" % u
        cx.funs.append("(declare-fun %s (Int) Val)" % at)
        cx.funs.append("(declare-fun %s (Val) Int)" % idx)
        n = "(vs_n %s)" % it.t
        ax = [
            "(forall ((i Int)) (=> (and (<= 0 i) (< i %s)) (and (select (vs_has %s) (%s i)) (= (%s (%s i)) i))))"
            % (n, it.t, at, idx, at),
            "(forall ((c Val)) (=> (select (vs_has %s) c) (and (<= 0 (%s c)) (< (%s c) %s) (= (%s (%s c)) c))))"
            % (it.t, idx, idx, n, at, idx),
        ]
        return n, (lambda i: SV("(select (vs_rep %s) (%s %s))" % (it.t, at, i), T.VAL)), ax
    if isinstance(it, PyV) and it.kind in ("mapvalues", "mapkeys", "mapitems") and it.data.ty.kind == "qmap":
        m = it.data
        vv = m.ty.args[0]
        mk, tab, keyf = T.qm_names(vv)
        u = next(cx.counter)
        keyat, idx = "ukeyat!%d" % u, "uidx!%d" % u
        cx.funs.append("(declare-fun %s (Int) String)" % keyat)
        cx.funs.append("(declare-fun %s (String) Int)" % idx)
        n = cx.fresh("n", T.INT)
        has = lambda ut: ex.cell_present("(select (%s %s) %s)" % (tab, m.t, ut), vv)
        ax = [
            "(>= %s 0)" % n.t,
            "(forall ((i Int)) (=> (and (<= 0 i) (< i %s)) (and %s (= (%s (%s i)) i))))"
            % (n.t, has("(%s i)" % keyat), idx, keyat),
            "(forall ((k String)) (=> %s (and (<= 0 (%s k)) (< (%s k) %s) (= (%s (%s k)) k))))"
            % (has("k"), idx, idx, n.t, keyat, idx),
        ]

        def qelem(i):
            ut = "(%s %s)" % (keyat, i)
            key = SV("(select (%s %s) %s)" % (keyf, m.t, ut), T.QN)
            cell = "(select (%s %s) %s)" % (tab, m.t, ut)
            val = SV(cell if T.total_map_value(vv) else S.the(vv, cell), vv)
            if it.kind == "mapkeys":
                return key
            if it.kind == "mapvalues":
                return val
            return PyV("tuple", [key, val])

        return n.t, qelem, ax
    if isinstance(it, PyV) and it.kind in ("mapvalues", "mapkeys", "mapitems"):
        m = it.data
        kk, vv = m.ty.args
        ks = S.sort(kk)
        u = next(cx.counter)
        keyat, idx = "keyat!%d" % u, "idx!%d" % u
        cx.funs.append("(declare-fun %s (Int) %s)" % (keyat, ks))
        cx.funs.append("(declare-fun %s (%s) Int)" % (idx, ks))
        n = cx.fresh("n", T.INT)
        has = lambda kt: ex.map_has(m, SV(kt, kk))
        ax = [
            "(>= %s 0)" % n.t,
            "(forall ((i Int)) (=> (and (<= 0 i) (< i %s)) (and %s (= (%s (%s i)) i))))"
            % (n.t, has("(%s i)" % keyat), idx, keyat),
            "(forall ((k %s)) (=> %s (and (<= 0 (%s k)) (< (%s k) %s) (= (%s (%s k)) k))))"
            % (ks, has("k"), idx, idx, n.t, keyat, idx),
        ]

        def elem(i):
            key = SV("(%s %s)" % (keyat, i), kk)
            if it.kind == "mapkeys":
                return key
            val = ex.map_get(m, key)
            if it.kind == "mapvalues":
                return val
            return PyV("tuple", [key, val])

        return n.t, elem, ax
    if isinstance(it, SV) and it.ty.kind == "set":
        et = it.ty.args[0]
        es = S.sort(et)
        u = next(cx.counter)
        at, idx = "elat!%d" % u, "eidx!%d" % u
        cx.funs.append("(declare-fun %s (Int) %s)" % (at, es))
        cx.funs.append("(declare-fun %s (%s) Int)" % (idx, es))
        n = cx.fresh("n", T.INT)
        ax = [
            "(>= %s 0)" % n.t,
            "(forall ((i Int)) (=> (and (<= 0 i) (< i %s)) (and (select %s (%s i)) (= (%s (%s i)) i))))"
            % (n.t, it.t, at, idx, at),
            "(forall ((e %s)) (=> (select %s e) (and (<= 0 (%s e)) (< (%s e) %s) (= (%s (%s e)) e))))"
            % (es, it.t, idx, idx, n.t, at, idx),
        ]
        return n.t, (lambda i: SV("(%s %s)" % (at, i), et)), ax
    raise Unsupported("iteration over %r" % (it,), node)


def exec_for(ex, s, st, k, ctl):
    def got(st1, it):
        if isinstance(it, PyV) and it.kind in ("tuple", "cset"):
            return unroll(ex, s, list(it.data), st1, k, ctl)
        if isinstance(it, PyV) and it.kind == "dynattr":
            # class-level tuple depending on the dynamic class: case split on the class
            o, attr, vals = it.data
            for cname, enc in sorted(vals.items()):
                c = ex.cls_exact(o.t, cname)
                if ex.feasible(st1, c):
                    items = ex.const(enc)
                    unroll(ex, s, list(items.data), st1.assume(c).step("<%s>" % cname), k, ctl)
            return None
        return symbolic_for(ex, s, it, st1, k, ctl)

    return ex.ev(s.iter, st, got, ctl)


def unroll(ex, s, items, st, k, ctl):
    if s.orelse:
        raise Unsupported("for/else", s)

    def go(i, st1):
        if i == len(items):
            return k(st1)
        inner = ctl._replace(brk=lambda s2: k(s2), cont=lambda s2: go(i + 1, s2))
        return ex.assign(s.target, items[i], st1,
                         lambda s2: ex.ex(s.body, s2, lambda s3: go(i + 1, s3), inner), ctl)

    return go(0, st)


def symbolic_for(ex, s, it, st, k, ctl):
    cx = ex.cx
    lid, invs = invariants_for(ex, st, s)
    n, elem, ax = enumeration(ex, it, st, s)
    st = st.assume(*ax)
    iterfn = PyV("iterfn", lambda args: elem(args[0].t))
    tnames = [x.id for x in ast.walk(s.target) if isinstance(x, ast.Name)]

    entry_env = dict(st.env)

    def ienv(i):
        return {"_i": SV(i, T.INT), "_n": SV(n, T.INT), "_elem": iterfn, "$entry": entry_env}

    # (a) invariant holds on entry
    check_invs(ex, invs, st, "init", lid, ienv("0"))
    # (b) arbitrary iteration
    sh = havoc(ex, st, s.body + s.orelse)
    i = cx.fresh("i", T.INT)
    s_it = sh.assume("(<= 0 %s)" % i.t, "(< %s %s)" % (i.t, n))
    s_it = assume_invs(ex, invs, s_it, ienv(i.t)).step("{%s" % lid)
    if True:
        def after_body(s2):
            check_invs(ex, invs, s2, "preserved", lid, ienv("(+ %s 1)" % i.t))

        inner = ctl._replace(brk=lambda s2: k(s2.step("brk}")), cont=after_body)
        ex.assign(s.target, elem(i.t), s_it, lambda s2: ex.ex(s.body, s2, after_body, inner), ctl)
    # (c) normal exit
    s_out = assume_invs(ex, invs, sh, ienv(n)).step("%s}" % lid)
    s_out = after_loop_asserts(ex, lid, s_out, ienv(n))
    if s.orelse:
        return ex.ex(s.orelse, s_out, k, ctl)
    return k(s_out)


def exec_while(ex, s, st, k, ctl):
    lid, invs = invariants_for(ex, st, s)
    if s.orelse:
        raise Unsupported("while/else", s)
    check_invs(ex, invs, st, "init", lid, {})
    sh = havoc(ex, st, s.body)
    sh = assume_invs(ex, invs, sh, {})

    def after_body(s2):
        check_invs(ex, invs, s2, "preserved", lid, {})

    inner = ctl._replace(brk=lambda s2: k(s2.step("brk}")), cont=after_body)
    return ex.branch(
        s.test, sh,
        lambda s2: ex.ex(s.body, s2.step("{%s" % lid), after_body, inner),
        lambda s2: k(s2.step("%s}" % lid)),
        ctl,
    )


def after_loop_asserts(ex, lid, st, extra_env):
    """`after_loop(lid, name, e)`: an assertion at the loop's normal exit - an obligation, then a fact"""
    c = ex.current_contract
    for name, e in c.after_loop.get(lid, []):
        env = dict(st.env)
        env.update(extra_env)
        ps = st.copy(env=env, spec=True, old=ex.pre_state)
        g = ex.spec_bool(e, ps)
        ex.cx.oblige("%s/%s:after/%s" % (_short(c.target), lid, name), st, g,
                     {"kind": "assertion", "function": c.target})
        st = st.assume(g)
    return st
