"""Calls of repository functions: by contract (modular) or, for declared accessors, inline.
Also: verification of one function against its contract."""
import ast

from . import ty as T
from .core import SV, PyV, ExcVal, State, Unsupported
from .smt import AND, OR, NOT, ITE, EQ, IMPLIES
from .sx import Ctl, exc_is_subclass, is_exception_class

MAX_INLINE_DEPTH = 12
KIND_CLASS = {"str": "str", "QN": "QualifiedName", "Lit": "Literal", "DT": "datetime", "bool": "bool", "Flt": "float"}

VALUE_BUILD = {
    # value class -> (type, constructor pattern over fields, consistency checks)
    "Namespace": (T.NS, "(mkNs {_prefix} {_uri})", []),
    "QualifiedName": (
        T.QN,
        "(mkQN {_namespace} {_localpart})",
        [("_uri", "(qn_uri %s)"), ("_str", "(qn_str %s)")],
    ),
    "Identifier": (T.IDENT, "{_uri}", []),
    "Literal": (T.LIT, "(mkLit {_value} {_datatype} {_langtag})", []),
}
VALUE_FIELD_TYPES = {
    "Namespace": {"_prefix": T.STR, "_uri": T.STR},
    "QualifiedName": {"_namespace": T.NS, "_localpart": T.STR, "_uri": T.STR, "_str": T.STR},
    "Identifier": {"_uri": T.STR},
    "Literal": {"_value": T.STR, "_datatype": T.Opt(T.QN), "_langtag": T.Opt(T.STR)},
}


def short(q):
    return ".".join(q.split(".")[2:]) if q.startswith("prov.") else q


def bind_args(ex, fi_or_params, defaults_fn, args, kwargs, node, skip_self=False):
    """positional/keyword binding -> dict name -> value (missing ones filled by defaults_fn)"""
    names = fi_or_params
    env = {}
    if len(args) > len(names):
        raise Unsupported("too many positional arguments", node)
    for n, a in zip(names, args):
        env[n] = a
    for kname, v in kwargs.items():
        if kname not in names:
            raise Unsupported("unexpected keyword argument %s" % kname, node)
        if kname in env:
            raise Unsupported("duplicate argument %s" % kname, node)
        env[kname] = v
    for n in names:
        if n not in env:
            d = defaults_fn(n)
            if d is None:
                raise Unsupported("missing argument %s" % n, node)
            env[n] = d
    return env


def func_defaults(ex, fi):
    a = fi.node.args
    names = [x.arg for x in a.args]
    d = {}
    if a.defaults:
        for n, dv in zip(names[-len(a.defaults):], a.defaults):
            d[n] = dv
    return names, d


def call_function(ex, fi, args, kwargs, st, k, ctl, node):
    q = fi.qualname
    specs = ex.specs
    if args and isinstance(args[0], PyV) and args[0].kind == "newobj":
        # method of the object under construction (base-class __init__ chaining): real body
        return inline_call(ex, fi, args, kwargs, st, k, ctl, node)
    if q in specs.contracts:
        c = specs.contracts[q]
        return apply_contract(ex, c, fi, args, kwargs, st, k, ctl, node)
    if q in specs.inline or (fi.parent is not None):
        return inline_call(ex, fi, args, kwargs, st, k, ctl, node)
    if not st.spec:
        # a helper without a contract (e.g. introduced by a refactoring): executed through its real body;
        # recorded, so that the evidence says which callees were not modular
        ex.cx.notes.append("auto-inlined (no contract): %s" % q)
        return inline_call(ex, fi, args, kwargs, st, k, ctl, node)
    raise Unsupported("call of %s: no contract and not declared inline" % q, node)


def inline_call(ex, fi, args, kwargs, st, k, ctl, node):
    if ex.depth > MAX_INLINE_DEPTH:
        raise Unsupported("inline depth exceeded at " + fi.qualname, node)
    ex.cx.inlined.add(fi.qualname)
    names, dflt = func_defaults(ex, fi)
    if fi.node.args.vararg or fi.node.args.kwarg or fi.node.args.kwonlyargs:
        raise Unsupported("*args/**kwargs in inlined function " + fi.qualname, node)

    def default_of(n):
        if n in dflt:
            return ex.spec_eval(dflt[n], State({}, st.heap, fn=fi, spec=True))
        return None

    env = bind_args(ex, names, default_of, args, kwargs, node)
    caller_env, caller_fn = st.env, st.fn
    if "$newobj" in st.env:
        env["$newobj"] = st.env["$newobj"]
    for kk_, vv_ in st.env.items():
        if kk_.startswith("$f:"):
            env[kk_] = vv_
    if fi.parent is not None:
        # closure: free variables resolve in the defining scope (the caller chain's locals)
        for kk_, vv_ in st.env.items():
            env.setdefault(kk_, vv_)
    s0 = st.copy(env=env, fn=fi)

    def back(s):
        e2 = dict(caller_env)
        for kk_, vv_ in s.env.items():
            if kk_ == "$newobj" or kk_.startswith("$f:"):
                e2[kk_] = vv_
        return s.copy(env=e2, fn=caller_fn)

    def ret(s, v):
        ex.depth -= 1
        try:
            return k(back(s), v)
        finally:
            ex.depth += 1

    def exc(s, e):
        ex.depth -= 1
        try:
            if ctl is None:
                raise Unsupported("exception %s in specification mode" % e.cls, node)
            return ctl.exc(back(s), e)
        finally:
            ex.depth += 1

    exc.catches = getattr(ctl.exc, "catches", None) if ctl is not None else None
    inner = Ctl(ret=ret, exc=exc, brk=None, cont=None)
    ex.depth += 1
    try:
        return ex.ex(fi.node.body, s0, lambda s: ret(s, SV("none", T.NONE)), inner)
    finally:
        ex.depth -= 1


# ---------------------------------------------------------------------- contracts at call sites
def contract_env(ex, c, fi, args, kwargs, st, node, for_construct=False):
    names = [n for n, _ in c.params]
    fnames, fdef = func_defaults(ex, fi) if fi is not None else ([], {})

    def default_of(n):
        if n in c.defaults:
            return ex.spec_eval(c.defaults[n], State({}, st.heap, fn=fi, spec=True))
        if n in fdef:
            return ex.spec_eval(fdef[n], State({}, st.heap, fn=fi, spec=True))
        return None

    env = bind_args(ex, names, default_of, args, kwargs, node)
    for n, t in c.params:
        v = env[n]
        if isinstance(v, SV):
            if v.ty == T.VAL and t != T.VAL and not st.spec:
                # dynamic type of the argument must be what the callee's contract is stated for
                tt, _ = ex.isinstance_term(v, [KIND_CLASS[t.kind]]) if t.kind in KIND_CLASS else ("false", None)
                ex.cx.oblige("call:%s/arg-type:%s@%s" % (short(c.target), n, getattr(node, "lineno", "?")), st, tt,
                             {"kind": "precondition", "callee": c.target})
            if v.ty.kind == "opt" and t.kind != "opt" and t != T.VAL and not st.spec:
                ex.cx.oblige("call:%s/arg-not-none:%s@%s" % (short(c.target), n, getattr(node, "lineno", "?")), st,
                             NOT(ex.cx.sorts.is_none(v.ty.args[0], v.t)), {"kind": "precondition", "callee": c.target})
            env[n] = ex.coerce(v, t, "argument %s of %s" % (n, c.target))
        elif t != T.PYOBJ:
            env[n] = ex.bi.lower(v, t, st, "argument %s of %s" % (n, c.target))
    return env


def havoc_modifies(ex, c, env, st_pre, st):
    """returns post state where every (obj, field) of the modifies clause holds a fresh value"""
    if getattr(c, "modifies_where", None):
        raise Unsupported("call of %s: contracts with modifies_where are verified but cannot be applied at call sites" % c.target)
    pre = st_pre.copy(env=env, spec=True, old=None)
    for objexpr, fields in c.modifies:
        obj = ex.spec_eval(objexpr, pre)
        if isinstance(obj, SV) and obj.ty.kind == "opt":
            # modifies on an optional object: only when present
            inner = obj.ty.args[0]
            present = NOT(ex.cx.sorts.is_none(inner, obj.t))
            objv = SV(ex.cx.sorts.the(inner, obj.t), inner)
        else:
            present = "true"
            objv = obj
        for f in fields:
            if f == "<dict>":
                sc = ex.schema_for(objv.ty.args[0])
                key = (sc.cls, "<dict>")
                ft = T.Map(*sc.dict_of)
            else:
                d = ex.field_decl(objv.ty.args[0], f)
                if d is None:
                    raise Unsupported("modifies: unknown field %s" % f)
                key = (d[0], f)
                ft = d[1]
            if ft == T.PYOBJ:
                continue
            arr = ex.heap_term(st, key, ft)
            nv = ex.cx.fresh("hv_" + f.strip("<>_"), ft)
            new = "(store %s %s %s)" % (arr, objv.t, nv.t)
            st = ex.set_heap(st, key, ITE(present, new, arr), ft)
    return st


def alloc_term(ex, st):
    arr = st.heap.get(("$", "alloc"))
    if arr is None:
        if "alloc@0" not in ex.cx.funs_known:
            ex.cx.funs_known.add("alloc@0")
            ex.cx.consts.append(("alloc@0", "(Array Int Bool)"))
        arr = "alloc@0"
    return arr


def havoc_allocation(ex, c, st_pre, post, pre_spec=None):
    """the callee may allocate objects of the classes it declares: the allocation set grows, and the
    fields of those classes are arbitrary at objects that were not allocated before the call"""
    cx = ex.cx
    a0 = alloc_term(ex, st_pre)
    a1 = cx.fresh_sort("alloc", "(Array Int Bool)")
    post = post.with_heap(("$", "alloc"), a1)
    facts = ["(forall ((r Int)) (=> (select %s r) (select %s r)))" % (a0, a1)]
    for cname in c.allocates:
        when = getattr(c, "allocates_when", {}).get(cname)
        if when is not None and pre_spec is not None:
            try:
                if ex.spec_bool(when, pre_spec) == "false":
                    continue      # this call cannot allocate objects of that class (e.g. records=None)
            except Unsupported:
                pass
        classes = [cname] + [b.name for b in ex.repo.classes[cname].mro[1:] if hasattr(b, "name")]
        for cn in classes:
            sc = ex.specs.schemas.get(cn)
            if sc is None:
                continue
            for f, ft in list(sc.fields.items()) + list(sc.ghost.items()):
                if ft == T.PYOBJ:
                    continue
                key = (cn, f)
                cur = ex.heap_term(post, key, ft)
                nw = cx.fresh_sort("HA_%s_%s" % (cn, f.strip("_")), "(Array Int %s)" % cx.sorts.sort(ft))
                facts.append("(forall ((r Int)) (=> (select %s r) (= (select %s r) (select %s r))))" % (a0, nw, cur))
                cx.__dict__.setdefault("heap_defs", {})[nw] = ("alloc-havoc", cur)
                post = post.with_heap(key, nw)
    return post.assume(*facts)


def apply_contract(ex, c, fi, args, kwargs, st, k, ctl, node):
    cx = ex.cx
    cx.deps.add(c.target)
    line = getattr(node, "lineno", "?")
    if getattr(c, "modifies_where", None) and not st.spec:
        # a contract with a set-valued frame has no call-site model: the call must be shown unreachable
        # (dynamic dispatch offers it for a receiver that the caller's invariants exclude)
        cx.oblige("call:%s/unreachable-here@%s" % (short(c.target), line), st, "false", {"kind": "call-pre", "callee": c.target})
        return None
    if st.spec:
        if not c.pure:
            raise Unsupported("call of non-pure %s inside a specification" % c.target, node)
    # schema typing: a reference of static class C denotes an instance of C (or a subclass)
    for a_ in list(args) + list(kwargs.values()):
        if isinstance(a_, SV) and a_.ty.kind == "ref" and a_.ty.args[0] in ex.repo.classes:
            st = st.assume(ex.cls_test(a_.t, a_.ty.args[0]))
    env = contract_env(ex, c, fi, args, kwargs, st, node)
    pre = st.copy(env=dict(env), spec=True, old=None, fn=fi)
    for ln, le in c.let:
        pre = pre.bind(ln, ex.spec_eval(le, pre))
    # 1. preconditions are obligations of the caller
    if not st.spec:
        for name, e in c.requires:
            g = ex.spec_bool(e, pre)
            cx.oblige("call:%s/%s@%s" % (short(c.target), name, line), st, g,
                      {"kind": "precondition", "callee": c.target})
            st = st.assume(g)
    if st.spec:
        # pure call inside a specification: use the defining clause  same(result, E)  when there is one
        for name, e in c.ensures:
            if (isinstance(e, ast.Call) and isinstance(e.func, ast.Name) and e.func.id == "same" and len(e.args) == 2
                    and isinstance(e.args[0], ast.Name) and e.args[0].id == "result"
                    and not any(isinstance(n, ast.Name) and n.id == "result" for n in ast.walk(e.args[1]))):
                v = ex.spec_eval(e.args[1], pre)
                if isinstance(v, SV):
                    v = ex.coerce(v, c.ret, "result of " + c.target)
                return k(st, v)
    # 2. havoc what the callee may modify, allocate the result
    post = havoc_modifies(ex, c, pre.env, st, st)
    if getattr(c, "modifies_fs", False):
        ex.fs_term(st)
        post = post.with_heap(("$", "fs"), cx.fresh_sort("FS", "(Array String Opt_Str)"))
    if c.allocates:
        post = havoc_allocation(ex, c, st, post, pre)
    if c.ret == T.NONE:
        result = SV("none", T.NONE)
    elif c.ret == T.PYOBJ:
        result = PyV("opaque", c.target)
    elif c.pure:
        # a pure function is deterministic: the same arguments in the same heap give the same result
        ckey = (c.target, tuple((n, getattr(v, "t", repr(v))) for n, v in sorted(pre.env.items()) if not n.startswith("$")),
                tuple(sorted((str(k_), v_) for k_, v_ in st.heap.items())))
        cache = cx.__dict__.setdefault("_pure_results", {})
        if ckey in cache and st.spec:
            # the same pure call was made before in this unit: its result (and the facts about it) are known
            return k(st, cache[ckey])
        if ckey not in cache:
            cache[ckey] = cx.fresh("r_" + c.target.split(".")[-1].split(":")[-1].strip("_"), c.ret)
        result = cache[ckey]
    else:
        result = cx.fresh("r_" + c.target.split(".")[-1].split(":")[-1].strip("_"), c.ret)
    # 3. exceptional exits
    if not st.spec:
        for R in c.raises:
            se = havoc_modifies(ex, c, pre.env, st, st)
            if getattr(c, "modifies_fs", False):
                ex.fs_term(st)
                se = se.with_heap(("$", "fs"), cx.fresh_sort("FS", "(Array String Opt_Str)"))
            conds = []
            if R.when is not None:
                conds.append(ex.spec_bool(R.when, pre))
            if R.ensures is not None:
                pe = se.copy(env=dict(pre.env), spec=True, old=pre, fn=fi)
                conds.append(ex.spec_bool(R.ensures, pe))
            cond = AND(*conds)
            if ex.feasible(se, cond):
                s_exc = se.assume(cond).step("x%s" % R.exc[:1]).copy(env=st.env, fn=st.fn, spec=False, old=st.old)
                ctl.exc(s_exc, ExcVal(R.exc, (), node))
    # 4. normal exit: ghost updates, then assume the postconditions
    penv = dict(pre.env)
    penv["result"] = result
    for objexpr, field, ve in c.ghost_sets:
        ps = post.copy(env=penv, spec=True, old=pre, fn=fi)
        obj = ex.spec_eval(objexpr, pre)
        val = ex.spec_eval(ve, ps)
        post = ex.field_write(obj, field, val, post)
    ps = post.copy(env=penv, spec=True, old=pre, fn=fi)
    cur = getattr(ex, "current_contract", None)
    wanted = cur.uses.get(c.target) if (cur is not None and not st.spec) else None
    facts = [ex.spec_bool(e, ps) for n_, e in c.ensures if (wanted is None or n_ in wanted) and n_ not in c.internal]
    if st.spec:
        # the caller keeps no state in specification mode: the facts about the fresh result become
        # global assumptions (only possible when no bound variable occurs in them)
        if st.bound:
            raise Unsupported("pure call of %s without a defining `same(result, ...)` clause under a quantifier" % c.target, node)
        cx.axioms.extend(f for f in facts if f != "true")
        return k(st, result)
    out = post.assume(*facts).copy(env=st.env, fn=st.fn, spec=st.spec, old=st.old)
    return k(out, result)


def construct(ex, ci, args, kwargs, st, k, ctl, node):
    if is_exception_class(ex.repo, ci.name):
        return k(st, ExcVal(ci.name, args, node))
    init = ci.lookup("__init__")
    target = init.qualname if init is not None else None
    c = ex.specs.contracts.get(target)
    if c is None:
        raise Unsupported("constructor %s has no contract" % ci.name, node)
    if ci.name in T.VALUE_CLASSES or (c.params and c.params[0][0] != "self"):
        # value-class constructor: contract without self, result is the abstract value
        return apply_contract(ex, c, init, args, kwargs, st, k, ctl, node)
    # heap object: allocate, then the __init__ contract with self = the new reference
    r = ex.cx.fresh("new_" + ci.name, T.Ref(ci.name))
    ex.cx.__dict__.setdefault("new_refs", set()).add(r.t)
    st = ex.allocate(r, ci.name, st)
    return apply_contract(ex, c, init, [r] + list(args), kwargs, st, lambda s, v: k(s, r), ctl, node)


def construct_choice(ex, items, args, kwargs, st, k, ctl, node):
    """construct an object whose class is one of several (all sharing one __init__), chosen by `cond`"""
    ci0 = items[0][1]
    init = ci0.lookup("__init__")
    c = ex.specs.contracts.get(init.qualname)
    if c is None:
        raise Unsupported("constructor %s has no contract" % ci0.name, node)
    static_cls = init.cls.name
    r = ex.cx.fresh("new_" + static_cls, T.Ref(static_cls))
    ex.cx.__dict__.setdefault("new_refs", set()).add(r.t)
    arr = alloc_term(ex, st)
    facts = [NOT("(select %s %s)" % (arr, r.t))]
    for cond, ci in items:
        facts.append(IMPLIES(cond, ex.cls_exact(r.t, ci.name)))
    st = st.assume(*facts).with_heap(("$", "alloc"), "(store %s %s true)" % (arr, r.t))
    return apply_contract(ex, c, init, [r] + list(args), kwargs, st, lambda s, v: k(s, r), ctl, node)


# ---------------------------------------------------------------------- verifying one contract
def verify_contract(ex, c):
    cx = ex.cx
    ex.reveals = set(c.reveals)
    fi = ex.repo.func(c.target.split('#')[0])
    is_value_init = fi.cls is not None and fi.cls.name in T.VALUE_CLASSES and fi.node.name == "__init__" \
        and (not c.params or c.params[0][0] != "self")
    env = {}
    for n, t in c.params:
        if t == T.PYOBJ:
            raise Unsupported("pyobj parameter in verified contract " + c.target)
        env[n] = SV("none", T.NONE) if t == T.NONE else cx.fresh(n, t)
    fnames = [a.arg for a in fi.node.args.args]
    cnames = [n for n, _ in c.params]
    expect = fnames[1:] if is_value_init else fnames
    if cnames != expect:
        raise Unsupported("contract %s: parameters %r do not match the function's %r" % (c.target, cnames, expect))
    newobj = None
    if is_value_init:
        newobj = PyV("newobj", {}, fi.cls)
        env_body = dict(env)
        env_body[fnames[0]] = newobj
    else:
        env_body = dict(env)
    if fi.node.args.kwarg is not None:
        # **kw of the verified function: an opaque bag of keyword arguments that can only be passed on
        env[fi.node.args.kwarg.arg] = PyV("kwargs", None)
        env_body[fi.node.args.kwarg.arg] = env[fi.node.args.kwarg.arg]
    st0 = State(dict(env), {}, fn=fi)
    pre = st0.copy(spec=True)
    for ln, le in c.let:
        pre = pre.bind(ln, ex.spec_eval(le, pre))
    hyps = []
    for name, e in c.requires:
        hyps.append(ex.spec_bool(e, pre))
    for n, t in c.params:
        if t.kind == "ref":
            hyps.append(ex.cls_test(env[n].t, t.args[0]))
            # python semantics: an object passed in exists (is allocated) at entry
            hyps.append("(select %s %s)" % (alloc_term(ex, st0), env[n].t))
            cx.__dict__.setdefault("entry_refs", set()).add(env[n].t)
    for name, e in c.axioms:
        hyps.append(ex.spec_bool(e, pre))
        cx.notes.append("theory fact assumed in %s: %s" % (c.target, name))
    base = st0.assume(*hyps)
    pre = pre.copy(pc=base.pc)
    T0 = short(c.target)

    def frame_formulas(s, only_keys=None):
        """for every heap field written on this path: it equals its initial value except at the objects
        the modifies clause names -> list of (key, formula)"""
        mod = {}
        for objexpr, fields in c.modifies:
            obj = ex.spec_eval(objexpr, pre)
            for f in fields:
                if f == "<dict>":
                    sc = ex.schema_for(_reft(obj).args[0])
                    key = (sc.cls, "<dict>")
                else:
                    d = ex.field_decl(_reft(obj).args[0], f)
                    key = (d[0], f)
                mod.setdefault(key, []).append(obj)
        out = []
        if ("$", "fs") in s.heap and not getattr(c, "modifies_fs", False) and s.heap[("$", "fs")] != "FS@0":
            out.append((("$", "fs"), EQ(s.heap[("$", "fs")], "FS@0")))      # the function may not change the file system
        for key, term in s.heap.items():
            if key[0] == "$":
                continue
            if only_keys is not None and key not in only_keys:
                continue
            sc = ex.specs.schemas.get(key[0])
            ft = T.Map(*sc.dict_of) if key[1] == "<dict>" else sc.field_type(key[1])
            if key[1] in sc.ghost:
                continue
            init = ex.heap_term(st0, key, ft)
            if term == init:
                continue
            allowed = init
            for obj in mod.get(key, []):
                if obj.ty.kind == "opt":
                    inner = obj.ty.args[0]
                    ot = ex.cx.sorts.the(inner, obj.t)
                    allowed = ITE(ex.cx.sorts.is_none(inner, obj.t), allowed,
                                  "(store %s %s (select %s %s))" % (allowed, ot, term, ot))
                else:
                    allowed = "(store %s %s (select %s %s))" % (allowed, obj.t, term, obj.t)
            # set-valued part of the frame: objects satisfying a modifies_where condition in the pre-state
            conds = []
            for lam, cls, fields in getattr(c, "modifies_where", []):
                for f in fields:
                    if f == "<dict>":
                        k2 = (ex.schema_for(cls).cls, "<dict>")
                    else:
                        d = ex.field_decl(cls, f)
                        k2 = (d[0], f) if d else None
                    if k2 == key:
                        bv = "r_mw%d" % next(cx.counter)
                        ps = pre.copy(env={**pre.env, lam.args.args[0].arg: SV(bv, T.Ref(cls))})
                        ps.bound = tuple(getattr(pre, "bound", ())) + (bv,)
                        conds.append((bv, AND(ex.cls_test(bv, cls), ex.spec_bool(lam.body, ps))))
            if conds:
                a0 = alloc_term(ex, st0)
                bv0 = conds[0][0]
                excl = OR(*[cnd.replace(bv, bv0) for bv, cnd in conds])
                out.append((key, "(forall ((%s Int)) (=> (and (select %s %s) (not %s)) (= (select %s %s) (select %s %s))))" % (
                    bv0, a0, bv0, excl, term, bv0, allowed, bv0)))
            elif ("$", "alloc") in s.heap or c.allocates:
                a0 = alloc_term(ex, st0)
                out.append((key, "(forall ((r Int)) (=> (select %s r) (= (select %s r) (select %s r))))" % (a0, term, allowed)))
            else:
                out.append((key, EQ(term, allowed)))
        return out

    ex.frame_formulas = frame_formulas

    def frame_obligations(s, tag):
        for key, g in frame_formulas(s):
            cx.oblige("%s/frame:%s.%s%s" % (T0, key[0], key[1], tag), s, g,
                      {"kind": "frame", "function": c.target})

    def on_ret(s, v):
        cx.exits += 1
        cx.current_path = "".join(s.path)
        cx.cover(T0 + "/exit", s)
        if is_value_init:
            v = build_value(ex, fi.cls.name, newobj, s, T0)
        if c.ret == T.NONE:
            if isinstance(v, SV) and v.ty != T.NONE:
                pass  # value ignored by callers
            res = SV("none", T.NONE)
        elif isinstance(v, SV):
            res = ex.coerce(v, c.ret, "return value of " + c.target)
        else:
            res = ex.bi.lower(v, c.ret, s, "return value of " + c.target)
        penv = dict(pre.env)
        penv["result"] = res
        penv["$locals"] = s.env
        # ghost updates happen at the normal exit
        for objexpr, field, ve in c.ghost_sets:
            ps = s.copy(env=penv, spec=True, old=pre, fn=fi)
            obj = ex.spec_eval(objexpr, pre)
            val = ex.spec_eval(ve, ps)
            s = ex.field_write(obj, field, val, s)
        ps = s.copy(env=penv, spec=True, old=pre, fn=fi)
        proved = {}
        for name, e in c.ensures:
            g = ex.spec_bool(e, ps)
            # clauses listed under using=[...] were stated (and are proved) earlier on this same exit: lemmas
            su = s.assume(*[proved[u] for u in c.using.get(name, []) if u in proved])
            cx.oblige("%s/%s" % (T0, name), su, g, {"kind": "postcondition", "function": c.target,
                                                    "clause": ast.unparse(e)[:200]})
            proved[name] = g
        frame_obligations(s, "")

    def on_exc(s, exc):
        cx.exits += 1
        cx.current_path = "".join(s.path)
        cx.cover(T0 + "/exit-" + exc.cls, s)
        line = getattr(exc.node, "lineno", "?")
        matching = [R for R in c.raises if exc_is_subclass(ex.repo, exc.cls, R.exc)]
        if not matching:
            cx.oblige("%s/no-unexpected-%s@%s" % (T0, exc.cls, line), s, "false",
                      {"kind": "exception-freedom", "function": c.target})
            return
        R = matching[0]
        penv = dict(pre.env)
        if R.when is not None:
            g = ex.spec_bool(R.when, pre.copy(env=penv))
            cx.oblige("%s/raises-%s-when@%s" % (T0, R.name, line), s, g,
                      {"kind": "exceptional-precondition", "function": c.target})
        if R.ensures is not None:
            ps = s.copy(env=penv, spec=True, old=pre, fn=fi)
            g = ex.spec_bool(R.ensures, ps)
            cx.oblige("%s/raises-%s-ensures@%s" % (T0, R.name, line), s, g,
                      {"kind": "exceptional-postcondition", "function": c.target})
        frame_obligations(s, ":exc")

    on_exc.catches = lambda name: False
    ctl = Ctl(ret=on_ret, exc=on_exc, brk=None, cont=None)
    cases = c.cases or [("", None)]
    for cname, cexpr in cases:
        s = base.copy(env=dict(env_body))
        if cexpr is not None:
            s = s.assume(ex.spec_bool(cexpr, pre)).step("[%s]" % cname)
        ex.current_contract = c
        ex.pre_state = pre
        ex.ex(fi.node.body, s, lambda s2: on_ret(s2, SV("none", T.NONE)), ctl)


def _reft(obj):
    return obj.ty.args[0] if obj.ty.kind == "opt" else obj.ty


def build_value(ex, clsname, newobj, st, T0):
    ty, pat, checks = VALUE_BUILD[clsname]
    ftypes = VALUE_FIELD_TYPES[clsname]
    vals = {}
    for f, ft in ftypes.items():
        fields = st.env.get("$newobj", {})
        if f not in fields:
            raise Unsupported("%s.__init__ does not set %s on this path" % (clsname, f))
        v = fields[f]
        vals[f] = ex.coerce(v, ft, "field %s of %s" % (f, clsname)).t
    term = pat.format(**vals)
    for f, chk in checks:
        ex.cx.oblige("%s/abstraction:%s" % (T0, f), st, EQ(vals[f], chk % term),
                     {"kind": "abstraction", "function": T0})
    return SV(term, ty)
