"""Discharging obligations: cvc5 and z3 as subprocesses, raced per query, 16-way pool.
A query is `unsat` (obligation holds), `sat` (refuted, with model text) or undecided."""
import concurrent.futures as cf
import hashlib
import os
import subprocess
import tempfile
import threading
import time

BACKENDS = {
    "cvc5-1.0.3": ["/usr/bin/cvc5", "--lang", "smt2", "--strings-exp", "--tlimit=%(ms)d"],
    "z3-5.1.0": ["z3-new", "-in", "-smt2", "-T:%(s)d"],
    "z3-4.8.12": ["/usr/bin/z3", "-in", "-smt2", "-T:%(s)d"],
}
# cvc5 with finite model finding is good at producing counterexamples
SAT_BACKENDS = {
    "cvc5-1.0.3-fmf": ["/usr/bin/cvc5", "--lang", "smt2", "--strings-exp", "--finite-model-find",
                       "--produce-models", "--tlimit=%(ms)d"],
    "z3-5.1.0": ["z3-new", "-in", "-smt2", "-T:%(s)d"],
}

NCPU = int(os.environ.get("PYVC_JOBS", "16"))


def run_backend(name, cmd, text, timeout_s):
    args = [a % {"ms": int(timeout_s * 1000), "s": max(1, int(timeout_s))} for a in cmd]
    t0 = time.time()
    try:
        p = subprocess.run(args, input=text, capture_output=True, text=True, timeout=timeout_s + 5)
        out = p.stdout.strip()
        err = p.stderr.strip()
    except subprocess.TimeoutExpired:
        return ("timeout", "", time.time() - t0)
    dt = time.time() - t0
    first = out.split("\n", 1)[0].strip() if out else ""
    if first in ("sat", "unsat", "unknown"):
        return (first, out, dt)
    if "timeout" in out or "timeout" in err or "interrupted" in err:
        return ("timeout", out + err, dt)
    return ("error", (out + "\n" + err)[:2000], dt)


def solve_one(text, timeout_s=10.0, want_model=False, backends=None):
    """race the back ends; returns dict(status, backend, time, detail, tried)"""
    bks = backends or (list(BACKENDS.items())[:2])
    results = {}
    done = threading.Event()
    final = {}
    lock = threading.Lock()

    def work(name, cmd):
        r = run_backend(name, cmd, text, timeout_s)
        with lock:
            results[name] = r
            if r[0] in ("unsat", "sat") and "status" not in final:
                final.update(status=r[0], backend=name, time=r[2], detail=r[1])
                done.set()
            if len(results) == len(bks):
                done.set()

    threads = [threading.Thread(target=work, args=b, daemon=True) for b in bks]
    for t in threads:
        t.start()
    done.wait(timeout_s + 10)
    with lock:
        tried = {n: (r[0], round(r[2], 3)) for n, r in results.items()}
        if "status" in final:
            final["tried"] = tried
            return dict(final)
        errs = [r for r in results.values() if r[0] == "error"]
        return {
            "status": "error" if errs and len(errs) == len(results) else "unknown",
            "backend": None,
            "time": max([r[2] for r in results.values()] or [timeout_s]),
            "detail": "\n".join(r[1] for r in results.values())[:3000],
            "tried": tried,
        }


def solve_multi(variants, timeout_s=10.0, backends=None):
    """variants: [(label, text, is_full)].  All (variant x back end) runs race; the first `unsat` wins
    (every variant has a subset of the hypotheses, so unsat of any of them proves the obligation);
    `sat` is believed only from the full query."""
    bks = backends or (list(BACKENDS.items())[:2])
    jobs = [(lab, txt, full, bn, cmd) for (lab, txt, full) in variants for (bn, cmd) in bks]
    results = {}
    final = {}
    done = threading.Event()
    lock = threading.Lock()

    def work(lab, txt, full, bn, cmd):
        r = run_backend(bn, cmd, txt, timeout_s)
        with lock:
            results[bn + "/" + lab] = r
            if "status" not in final and (r[0] == "unsat" or (r[0] == "sat" and full)):
                final.update(status=r[0], backend=bn, variant=lab, time=r[2], detail=r[1])
                done.set()
            if len(results) == len(jobs):
                done.set()

    for j in jobs:
        threading.Thread(target=work, args=j, daemon=True).start()
    done.wait(timeout_s + 10)
    with lock:
        tried = {n: (r[0], round(r[2], 3)) for n, r in results.items()}
        if "status" in final:
            final["tried"] = tried
            return dict(final)
        return {"status": "unknown", "backend": None, "variant": None, "time": timeout_s,
                "detail": "\n".join(r[1] for r in results.values())[:3000], "tried": tried}


def discharge(cx, obligations, timeout_s=10.0, jobs=None, progress=None):
    """fills ob.result for every obligation"""
    jobs = jobs or max(1, NCPU // 2)
    t0 = time.time()

    def one(ob):
        qs = cx.query(ob, relevant=True, level="same")
        qf = cx.query(ob, relevant=True, level="frame")
        if qf:
            r = solve_multi([("frame", qf, False)], min(timeout_s, 10.0))
            if r["status"] == "unsat":
                ob.result = r
                return ob
        r = solve_multi([("small3k", cx.query(ob, relevant=True, level="small3000"), False),
                         ("small8k", cx.query(ob, relevant=True, level="small8000"), False)], min(timeout_s, 5.0))
        if r["status"] == "unsat":
            ob.result = r
            return ob
        r = solve_multi([("rel", cx.query(ob, relevant=True), False), ("full", cx.query(ob), True)] + ([("same", qs, False)] if qs else []), timeout_s)
        if r["status"] != "unsat":
            r2 = solve_multi([("dir", cx.query(ob, relevant=True, level=0), False)], min(timeout_s, 10.0))
            if r2["status"] == "unsat":
                r = r2
        ob.result = r
        return ob

    with cf.ThreadPoolExecutor(max_workers=jobs) as pool:
        for i, ob in enumerate(pool.map(one, obligations)):
            if progress:
                progress(i, ob)
    return time.time() - t0


# ---------------------------------------------------------------------- in-process pruner (z3)
_z3 = None


def z3_pruner(timeout_ms=400):
    global _z3
    try:
        import z3  # noqa
    except ImportError:
        return None
    _z3 = z3
    cache = {}

    def prune(cx, pc):
        key = hashlib.sha1(("\n".join(pc) + str(len(cx.consts)) + str(len(cx.funs))).encode()).hexdigest()
        if key in cache:
            return cache[key]
        text = cx.sat_query(pc)
        try:
            s = z3.Solver()
            s.set("timeout", timeout_ms)
            s.from_string(text)
            r = str(s.check())
        except Exception as e:  # parse problems must not hide paths
            r = "unknown"
            cx.notes.append("pruner error: %s" % str(e)[:200])
        cache[key] = r
        return r

    return prune
