"""Per-property configuration of the checks (what is trusted, which native driver replays)."""

A_COMMON = [
    "A0 no monkey-patching / no subclass overriding the verified methods / single thread; attribute lookup resolves as the class table read from the working tree says",
    "A1 Python integers are mathematical (they are)",
    "A2 CPython's builtin ==/hash on str/int/bool/tuple form a hash-consistent equivalence; dict/set implement lookup by it",
    "A5 partial correctness only: termination is not proved",
    "encoding: owned containers (dict/set/list held in a field and never leaked) have value semantics; Namespace/QualifiedName/Identifier/Literal are immutable values (Namespace._cache is a view-invisible memo table, proved coherent); identity (`is`) of such values is an unconstrained Boolean implying equality",
    "encoding: iteration over a dict is over *some* fixed enumeration of its entries (no particular order is assumed)",
    "logger.*/warnings.warn calls have no effect on program state and are skipped",
]

TRUSTED_SOLVERS = ["pyvc VC generator (/verif/pyvc, this repository)", "cvc5 1.0.3", "z3 5.1.0", "z3 4.8.12",
                   "CPython ast module (parsing the working tree)", "constant tables dumped from the real modules by CPython"]

PROPS = {
    "C03": {
        "level": "proof",
        "driver": "replay/c03.py",
        "timeout": 40.0,
        "trusted_base": TRUSTED_SOLVERS,
        "assumptions": A_COMMON + [
            "precondition (from the property's quantifier): prefixes are colon-free, non-empty for add_namespace and not '_'; names in a default namespace are bare local names; text given to the resolver does not start with ':'; an Identifier passed for resolution is a URI (contains ':')",
            "precondition (usage discipline stated in C03): set_default_namespace is only called with the URI already in force, or when no default is set",
            "two-level structure: a bundle's manager has the document's manager as parent, which has no parent (NSM_Inv)",
        ],
        "explanation": "C03 (a),(b) are postconditions of valid_qualified_name/add_namespace/set_default_namespace; (c) is the ghost invariant InvHanded (every handed-out name is anchored in the manager's own tables) plus lemma handed-names-resolve over the verified text-resolution postcondition.",
    },
    "C04": {
        "level": "proof",
        "driver": "replay/c04.py",
        "timeout": 20.0,
        "trusted_base": TRUSTED_SOLVERS + ["pigeonhole on finite sets (a subset of equal size is the whole set), instantiated for the sets built by set(list) / the key sets of dicts whose len() is compared"],
        "assumptions": A_COMMON + [
            "record state view: _attributes is a dict keyed by QualifiedName (by URI, first key object kept) of python sets of values (membership by the canonical key ck: True==1, QualifiedName==Identifier with equal URI, Literal datatypes by URI; first representative kept)",
            "A3/A4: floats and datetimes are abstract sorts whose equality is Python's ==; the cross-kind collision 1 == 1.0 and NaN are excluded (as the properties exclude them)",
            "python sets of records are keyed by the record key (type, identifier URI, attribute pair set); sound because the lemmas of this property show ProvRecord.__eq__/__hash__ agree with it",
            "precondition: records satisfy the attribute-table representation invariant AttrsWF (established by the constructors; see C05)",
            "scripts/prov-compare is not under contract (argparse/IO wrapper around d1 == d2)",
        ],
        "explanation": "Each __eq__/__ne__/__hash__ is verified against a specification predicate (record key equality; same record-key sets; same bundle ids with the same record-key sets); reflexivity, symmetry, transitivity and hash agreement are lemmas over those predicates.",
    },
    "C05": {
        "level": "proof",
        "driver": "replay/c05.py",
        "timeout": 60.0,
        "trusted_base": TRUSTED_SOLVERS + ["A4 dateutil.parser.parse (assumed contract ext:dateutil.parser.parse)"],
        "assumptions": A_COMMON + [
            "record state view as in C04 (QMap[VSet]); the size field of a python set is maintained by the only mutator model (vs_add) and is its cardinality in every reachable state",
            "A3/A4: int(text)/float(text)/dateutil.parser.parse are uninterpreted parsers with validity predicates (py_int, py_float, dt_parse); nothing about particular lexical forms is assumed",
            "precondition (inputs of the property): attribute names are QualifiedNames or text not starting with ':', values are scalars, library values or records (no containers); times are datetimes or parseable text",
            "add_attributes/new_record are stated for the pair-list form; the dict form is converted to it by the first statements of the body (attributes.items())",
            "add_asserted_type is stated for QualifiedName arguments (what every caller in the package passes)",
            "not claimed (as in the property): several prov:entity values of one membership record",
        ],
        "explanation": "NF (formal attributes single-valued and typed, other values normalised) is the class invariant of ProvRecord: established by the constructors, preserved by every writer of _attributes (add_attributes with its loop invariant, add_asserted_type, set_time), on normal and on exceptional exits.",
    },
    "C18": {
        "level": "proof",
        "driver": "replay/c18.py",
        "always_native": True,
        "timeout": 40.0,
        "trusted_base": TRUSTED_SOLVERS + ["recursion equations of the order-preserving filters filtid/filtcls and the frame lemma of filtid (induction on the list, not mechanised)"],
        "assumptions": A_COMMON + [
            "the index _id_map is a dict keyed by QualifiedName (hash/== by URI); absent entries of the defaultdict read as empty lists",
            "get_records(cls) is stated for a single class object of the package (a tuple of classes is not covered); its result is a lazy filter object and the postcondition is about list(result)",
            "`records` returns list(self._records): independence of the returned list is the ownership discipline checked by the syntactic scan scan:no-leak:_records (value semantics of owned containers)",
            "the URI a spelling denotes is what valid_qualified_name resolves it to (C03 contracts); a full URI denotes itself when a namespace of the container can compact it",
        ],
        "scans": {"writers": {"_records": ["prov.model.ProvBundle.__init__", "prov.model.ProvBundle._add_record"],
                              "_id_map": ["prov.model.ProvBundle.__init__", "prov.model.ProvBundle._add_record"]},
                  "leaks": {"_records": [["prov.model.ProvDocument.flattened", "passed to itertools.chain"]],
                            "_id_map": [["prov.model.ProvBundle.get_record", "element returned"]]}},
        "explanation": "Invariant Idx (every index entry is the order-preserving filter of the record list by identifier URI) is preserved by the only writer _add_record; get_record/get_records/records are verified against it for every spelling of the identifier; new_record/add_record are the only callers of _add_record (single-writer scan).",
    },
}
