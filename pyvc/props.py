"""Per-property configuration of the checks (what is trusted, which native driver replays)."""

A_COMMON = [
    "A0 no monkey-patching / no subclass overriding the verified methods / single thread; attribute lookup resolves as the class table read from the working tree says",
    "A1 Python integers are mathematical (they are)",
    "A2 CPython's builtin ==/hash on str/int/bool/tuple form a hash-consistent equivalence; dict/set implement lookup by it",
    "A5 partial correctness only: termination is not proved",
    "encoding: owned containers (dict/set/list held in a field and never leaked) have value semantics; Namespace/QualifiedName/Identifier/Literal are immutable values (Namespace._cache is a view-invisible memo table, proved coherent); identity (`is`) of such values is an unconstrained Boolean implying equality",
    "encoding: iteration over a dict is over *some* fixed enumeration of its entries (no particular order is assumed)",
    "logger.*/warnings.warn calls have no effect on program state and are skipped",
]

TRUSTED_SOLVERS = ["pyvc VC generator (/verif/pyvc, this repository)", "cvc5 1.0.3", "z3 5.1.0", "z3 4.8.12",
                   "CPython ast module (parsing the working tree)", "constant tables dumped from the real modules by CPython"]

PROPS = {
    "C03": {
        "level": "proof",
        "driver": "replay/c03.py",
        "timeout": 40.0,
        "trusted_base": TRUSTED_SOLVERS,
        "assumptions": A_COMMON + [
            "precondition (from the property's quantifier): prefixes are colon-free, non-empty for add_namespace and not '_'; names in a default namespace are bare local names; text given to the resolver does not start with ':'; an Identifier passed for resolution is a URI (contains ':')",
            "precondition (usage discipline stated in C03): set_default_namespace is only called with the URI already in force, or when no default is set",
            "two-level structure: a bundle's manager has the document's manager as parent, which has no parent (NSM_Inv)",
        ],
        "explanation": "C03 (a),(b) are postconditions of valid_qualified_name/add_namespace/set_default_namespace; (c) is the ghost invariant InvHanded (every handed-out name is anchored in the manager's own tables) plus lemma handed-names-resolve over the verified text-resolution postcondition.",
    },
    "C04": {
        "level": "proof",
        "driver": "replay/c04.py",
        "timeout": 20.0,
        "trusted_base": TRUSTED_SOLVERS + ["pigeonhole on finite sets (a subset of equal size is the whole set), instantiated for the sets built by set(list) / the key sets of dicts whose len() is compared"],
        "assumptions": A_COMMON + [
            "record state view: _attributes is a dict keyed by QualifiedName (by URI, first key object kept) of python sets of values (membership by the canonical key ck: True==1, QualifiedName==Identifier with equal URI, Literal datatypes by URI; first representative kept)",
            "A3/A4: floats and datetimes are abstract sorts whose equality is Python's ==; the cross-kind collision 1 == 1.0 and NaN are excluded (as the properties exclude them)",
            "python sets of records are keyed by the record key (type, identifier URI, attribute pair set); sound because the lemmas of this property show ProvRecord.__eq__/__hash__ agree with it",
            "precondition: records satisfy the attribute-table representation invariant AttrsWF (established by the constructors; see C05)",
            "scripts/prov-compare is not under contract (argparse/IO wrapper around d1 == d2)",
        ],
        "explanation": "Each __eq__/__ne__/__hash__ is verified against a specification predicate (record key equality; same record-key sets; same bundle ids with the same record-key sets); reflexivity, symmetry, transitivity and hash agreement are lemmas over those predicates.",
    },
    "C05": {
        "level": "proof",
        "driver": "replay/c05.py",
        "timeout": 60.0,
        "trusted_base": TRUSTED_SOLVERS + ["A4 dateutil.parser.parse (assumed contract ext:dateutil.parser.parse)"],
        "assumptions": A_COMMON + [
            "record state view as in C04 (QMap[VSet]); the size field of a python set is maintained by the only mutator model (vs_add) and is its cardinality in every reachable state",
            "A3/A4: int(text)/float(text)/dateutil.parser.parse are uninterpreted parsers with validity predicates (py_int, py_float, dt_parse); nothing about particular lexical forms is assumed",
            "precondition (inputs of the property): attribute names are QualifiedNames or text not starting with ':', values are scalars, library values or records (no containers); times are datetimes or parseable text",
            "add_attributes/new_record are stated for the pair-list form; the dict form is converted to it by the first statements of the body (attributes.items())",
            "add_asserted_type is stated for QualifiedName arguments (what every caller in the package passes)",
            "not claimed (as in the property): several prov:entity values of one membership record",
        ],
        "explanation": "NF (formal attributes single-valued and typed, other values normalised) is the class invariant of ProvRecord: established by the constructors, preserved by every writer of _attributes (add_attributes with its loop invariant, add_asserted_type, set_time), on normal and on exceptional exits.",
    },
    "C18": {
        "level": "proof",
        "driver": "replay/c18.py",
        "always_native": True,
        "timeout": 40.0,
        "trusted_base": TRUSTED_SOLVERS + ["recursion equations of the order-preserving filters filtid/filtcls and the frame lemma of filtid (induction on the list, not mechanised)"],
        "assumptions": A_COMMON + [
            "the index _id_map is a dict keyed by QualifiedName (hash/== by URI); absent entries of the defaultdict read as empty lists",
            "get_records(cls) is stated for a single class object of the package (a tuple of classes is not covered); its result is a lazy filter object and the postcondition is about list(result)",
            "`records` returns list(self._records): independence of the returned list is the ownership discipline checked by the syntactic scan scan:no-leak:_records (value semantics of owned containers)",
            "the URI a spelling denotes is what valid_qualified_name resolves it to (C03 contracts); a full URI denotes itself when a namespace of the container can compact it",
        ],
        "scans": {"writers": {"_records": ["prov.model.ProvBundle.__init__", "prov.model.ProvBundle._add_record"],
                              "_id_map": ["prov.model.ProvBundle.__init__", "prov.model.ProvBundle._add_record"]},
                  "leaks": {"_records": [["prov.model.ProvDocument.flattened", "passed to itertools.chain"]],
                            "_id_map": [["prov.model.ProvBundle.get_record", "element returned"]]}},
        "explanation": "Invariant Idx (every index entry is the order-preserving filter of the record list by identifier URI) is preserved by the only writer _add_record; get_record/get_records/records are verified against it for every spelling of the identifier; new_record/add_record are the only callers of _add_record (single-writer scan).",
    },
    "C09": {
        "level": "proof",
        "driver": "replay/c09.py",
        "always_native": True,
        "timeout": 40.0,
        "trusted_base": TRUSTED_SOLVERS + ["list facts seq_snoc_lemma (length/last/earlier positions after appending one element), stated as an axiom of the sequence theory"],
        "assumptions": A_COMMON + [
            "record state view as in C04/C05; record content = (type URI, identifier URI, set of (attribute URI, canonical value)) - the record key of ProvRecord.__eq__ (C04), compared position by position (which implies the multiset identity of C09)",
            "precondition: the source records are in normal form with single-valued formal attributes (C05; a multi-entity membership record is outside, as in C05) and the containers satisfy the bundle invariant (index, namespace-manager invariant, records in normal form)",
            "ProvBundle.__init__/ProvDocument.__init__ are verified for records=None (with records they run the loop verified in ProvBundle.update)",
            "ProvBundle.update/add_bundle are stated for ProvBundle/ProvDocument arguments",
            "ProvDocument.bundle: BundlesOK for the bundles already present is not proved (frame only)",
        ],
        "bounded_units": [
            {"function": "prov.model.ProvDocument.update", "how": "native battery replay/c09.py (update and update-twice over all ordered pairs of three hand-built documents with shared bundle identifiers, clashing prefixes and differing default namespaces), strict multiset oracle",
             "why": "its second loop modifies records of an unbounded set of objects (all bundles of the document); pyvc's modifies clauses name single objects only. Its building blocks add_record, ProvBundle.update and ProvDocument.bundle are proved."},
            {"function": "prov.model.ProvDocument.flattened", "how": "native battery replay/c09.py (three documents), strict multiset oracle",
             "why": "iterates itertools.chain over a list of lists; pyvc has no theory of list flattening. The per-record step add_record is proved for every namespace environment."},
        ],
        "scans": {"writers": {"_bundles": ["prov.model.ProvDocument.__init__", "prov.model.ProvDocument.add_bundle", "prov.model.ProvDocument.bundle",
                                           "prov.model.ProvDocument.update"]},  # update(): calls ProvBundle.update on an element; bounded unit
                  "leaks": {}},
        "explanation": "Conservation is carried by postconditions: add_record returns a fresh record with the same record key as its source (same type, identifier URI and attribute pair set, in every namespace environment of the target) and leaves every existing record untouched; ProvBundle.update's loop invariant says position old_len+j holds a content-equal copy of other's j-th record and earlier positions are kept; add_bundle registers exactly one new bundle (the argument, or a fresh bundle of copies for a bundle-free document) and leaves the document unchanged on every exceptional exit; bundle() registers a fresh empty bundle.",
    },
    "C12": {
        "level": "proof",
        "driver": "replay/c12.py",
        "always_native": True,
        "timeout": 40.0,
        "trusted_base": TRUSTED_SOLVERS + ["syntactic ownership scans (pyvc/scans.py): completeness of the patterns 'store to a field', 'element store', 'mutator call', 'whole-container read that escapes' over the package's AST"],
        "assumptions": A_COMMON + [
            "ownership discipline (checked by the scans on every run, not assumed): the container fields _attributes (and its value sets), _records, _id_map (and its lists), _bundles, and the manager tables _namespaces/_uri_map/_rename_map/_prefix_renamed_map are only ever assigned newly created containers (scan:fresh-store), and are not handed out as a whole except at the recorded read-only accessors (scan:no-leak); this is what makes the value semantics of owned containers in the VCs sound",
            "separation is stated as freshness: the result object, its namespace manager and every record appended are allocated by the call (fresh); that a later mutation of one side leaves the other unchanged then follows from the verified modifies clauses of the mutators (add_attributes, add_record/new_record, add_namespace, set_default_namespace, bundle, add_bundle), which name only fields of their receiver, its manager and freshly allocated objects",
            "ProvRecord.copy() keeps the same _bundle object (documented 'exact copy'); a copy is therefore not separate from its source's bundle namespace scope, only from the source record",
            "unified/flattened/ProvDocument.update/constructors with records/deserialisation are covered by the scans (no store of a foreign container, no shared manager) and by the bounded native battery, not by postconditions of their own (see bounded_units)",
        ],
        "bounded_units": [
            {"function": "prov.model.ProvDocument.unified, ProvBundle.unified, ProvDocument.flattened, ProvDocument.update, ProvBundle.__init__(records=...), ProvDocument.deserialize",
             "how": "ownership scans over the whole package (these functions contain no store into an owned container field other than through the verified add_record / add_bundle / constructors) + native battery replay/c12.py: every deriving operation x 6 follow-up mutations x mutated side on two documents",
             "why": "their loops run over lists of lists / dict views that pyvc's loop rule does not cover (see C09); the record-level and bundle-level steps they are built from are under contract"},
        ],
        "scans": {
            "leaks": {
                "_attributes": [["prov.model.ProvRecord.get_asserted_types", "element returned"], ["prov.model.ProvRecord.get_attribute", "element returned"],
                                ["prov.model.ProvRecord.value", "element returned"]],
                "_records": [["prov.model.ProvDocument.flattened", "passed to itertools.chain"]],
                "_id_map": [["prov.model.ProvBundle.get_record", "element returned"]],
                "_bundles": [["prov.model.ProvDocument.bundles", "live view returned"]],
                "_namespaces": [["prov.model.NamespaceManager.get_registered_namespaces", "live view returned"],
                                ["prov.model.ProvDocument.add_bundle", "aliased by assignment"]],
                "_uri_map": [], "_rename_map": [["prov.model.NamespaceManager.add_namespace", "element returned"]], "_prefix_renamed_map": [],
            },
            "fresh_stores": {"fields": ["_attributes", "_records", "_id_map", "_bundles", "_namespaces", "_uri_map", "_rename_map", "_prefix_renamed_map"],
                             "nested": ["_attributes", "_id_map"], "allowed": {}},
        },
        "explanation": "Freshness postconditions: add_record/new_record return a record allocated by the call; ProvBundle.update appends only such records (loop invariant new-records-fresh); ProvBundle/ProvDocument constructors create their own NamespaceManager (own-fresh-manager); add_bundle of a document registers a fresh ProvBundle with a fresh manager holding copies; ProvRecord.copy returns a fresh record and leaves the source and its bundle's record list unchanged. Ownership scans close the gap the value-semantics encoding leaves: no container is stored into two owners, no manager object is shared (this is what flagged ProvDocument.unified before the fix).",
    },
}
