"""Loader: parses the real sources of the repository's working tree on every run.

Builds: module table (top-level functions, classes, nested functions), class table with
MRO, and the constant tables obtained from the real modules (dump_consts.py).
"""
import ast
import hashlib
import json
import os
import subprocess

from . import REPO, NATIVE_PY

MODULES = {
    "prov": "src/prov/__init__.py",
    "prov.constants": "src/prov/constants.py",
    "prov.identifier": "src/prov/identifier.py",
    "prov.model": "src/prov/model.py",
    "prov.graph": "src/prov/graph.py",
    "prov.dot": "src/prov/dot.py",
    "prov.serializers": "src/prov/serializers/__init__.py",
    "prov.serializers.provjson": "src/prov/serializers/provjson.py",
    "prov.serializers.provxml": "src/prov/serializers/provxml.py",
    "prov.serializers.provrdf": "src/prov/serializers/provrdf.py",
    "prov.serializers.provn": "src/prov/serializers/provn.py",
}


class FuncInfo:
    def __init__(self, qualname, node, module, cls=None, parent=None):
        self.qualname = qualname  # e.g. prov.model.NamespaceManager.add_namespace
        self.node = node
        self.module = module
        self.cls = cls  # ClassInfo or None
        self.parent = parent  # enclosing FuncInfo for nested defs
        self.decorators = [ast.unparse(d) for d in node.decorator_list]

    @property
    def is_property(self):
        return "property" in self.decorators

    @property
    def is_static(self):
        return "staticmethod" in self.decorators

    @property
    def span(self):
        return (self.node.lineno, self.node.end_lineno)

    def __repr__(self):
        return "<Func %s>" % self.qualname


class ClassInfo:
    def __init__(self, name, node, module):
        self.name = name
        self.node = node
        self.module = module
        self.base_names = [ast.unparse(b) for b in node.bases]
        self.methods = {}  # name -> FuncInfo
        self.aliases = {}  # name -> name   (wasGeneratedBy = generation)
        self.attrs = {}  # class-level constants (decoded from the real module)
        self.mro = []  # list of ClassInfo / builtin names

    def lookup(self, name):
        for c in self.mro:
            if isinstance(c, ClassInfo):
                if name in c.methods:
                    return c.methods[name]
                if name in c.aliases and c.aliases[name] in c.methods:
                    return c.methods[c.aliases[name]]
        return None

    def class_attr(self, name):
        for c in self.mro:
            if isinstance(c, ClassInfo) and name in c.attrs:
                return c.attrs[name]
        return None

    def is_subclass_of(self, other_name):
        for c in self.mro:
            n = c.name if isinstance(c, ClassInfo) else c
            if n == other_name:
                return True
        return False

    def __repr__(self):
        return "<Class %s>" % self.name


class ModuleInfo:
    def __init__(self, name, path, tree, source):
        self.name = name
        self.path = path
        self.tree = tree
        self.source = source
        self.funcs = {}
        self.classes = {}
        self.globals = {}  # decoded constants from the real module


class Repo:
    def __init__(self, root=None, with_consts=True):
        self.root = root or REPO
        self.modules = {}
        self.classes = {}  # simple name -> ClassInfo  (names are unique in the package)
        self.funcs = {}  # qualname -> FuncInfo
        self.sha = {}
        for mod, rel in MODULES.items():
            path = os.path.join(self.root, rel)
            src = open(path).read()
            self.sha[rel] = hashlib.sha256(src.encode()).hexdigest()[:16]
            tree = ast.parse(src, filename=path)
            mi = ModuleInfo(mod, path, tree, src)
            self.modules[mod] = mi
            self._index(mi)
        self._link()
        self.consts = None
        if with_consts:
            self._dump_consts()

    # ------------------------------------------------------------------
    def _index(self, mi):
        for node in mi.tree.body:
            if isinstance(node, (ast.FunctionDef,)):
                fi = FuncInfo(mi.name + "." + node.name, node, mi)
                mi.funcs[node.name] = fi
                self.funcs[fi.qualname] = fi
                self._index_nested(fi)
            elif isinstance(node, ast.ClassDef):
                ci = ClassInfo(node.name, node, mi)
                mi.classes[node.name] = ci
                self.classes[node.name] = ci
                for sub in node.body:
                    if isinstance(sub, ast.FunctionDef):
                        fi = FuncInfo(
                            "%s.%s.%s" % (mi.name, node.name, sub.name), sub, mi, cls=ci
                        )
                        ci.methods[sub.name] = fi
                        self.funcs[fi.qualname] = fi
                        self._index_nested(fi)
                    elif (
                        isinstance(sub, ast.Assign)
                        and len(sub.targets) == 1
                        and isinstance(sub.targets[0], ast.Name)
                        and isinstance(sub.value, ast.Name)
                    ):
                        ci.aliases[sub.targets[0].id] = sub.value.id

    def _index_nested(self, fi):
        for sub in ast.walk(fi.node):
            if isinstance(sub, ast.FunctionDef) and sub is not fi.node:
                # only direct nesting level is named <locals>; deeper ones get chained
                pass
        for sub in fi.node.body:
            self._nested(fi, sub)

    def _nested(self, parent, node):
        if isinstance(node, ast.FunctionDef):
            q = "%s.<locals>.%s" % (parent.qualname, node.name)
            fi = FuncInfo(q, node, parent.module, cls=None, parent=parent)
            self.funcs[q] = fi
            for sub in node.body:
                self._nested(fi, sub)
        else:
            for sub in ast.iter_child_nodes(node):
                if isinstance(sub, (ast.stmt,)):
                    self._nested(parent, sub)

    def _link(self):
        def mro_of(ci, seen=()):
            out = [ci]
            for b in ci.base_names:
                b = b.split(".")[-1]
                if b in self.classes and b not in seen:
                    for x in mro_of(self.classes[b], seen + (ci.name,)):
                        if x not in out:
                            out.append(x)
                else:
                    if b not in out:
                        out.append(b)
            return out

        for ci in self.classes.values():
            ci.mro = mro_of(ci)

    def _dump_consts(self):
        env = dict(os.environ)
        env["PYTHONPATH"] = os.path.join(self.root, "src")
        env.pop("PROV_VERIF", None)
        script = os.path.join(os.path.dirname(__file__), "dump_consts.py")
        mods = list(MODULES.keys())
        p = subprocess.run(
            [NATIVE_PY, script] + mods,
            env=env,
            capture_output=True,
            text=True,
            timeout=120,
        )
        if p.returncode != 0:
            raise RuntimeError("constant dump failed: " + p.stderr[-2000:])
        self.consts = json.loads(p.stdout)
        for mod, d in self.consts.items():
            mi = self.modules[mod]
            mi.globals = d["globals"]
            for cname, cd in d["classes"].items():
                if cname in mi.classes:
                    mi.classes[cname].attrs = cd["attrs"]

    # ------------------------------------------------------------------
    def func(self, qualname):
        if qualname not in self.funcs:
            raise KeyError("no such function in the working tree: " + qualname)
        return self.funcs[qualname]

    def subclasses(self, name):
        return [c for c in self.classes.values() if c.is_subclass_of(name)]

    def global_lookup(self, module, name):
        """Resolve a global name as seen from `module`: returns one of
        ('func', FuncInfo) ('class', ClassInfo) ('const', encoded) or None."""
        mi = self.modules[module] if isinstance(module, str) else module
        if name in mi.funcs:
            return ("func", mi.funcs[name])
        if name in mi.classes:
            return ("class", mi.classes[name])
        if name in mi.globals:
            enc = mi.globals[name]
            if enc["k"] == "class":
                nm = enc["name"].split(".")[-1]
                if nm in self.classes and enc["module"].startswith("prov"):
                    return ("class", self.classes[nm])
                return ("extclass", enc)
            if enc["k"] == "func":
                q = "%s.%s" % (enc["module"], enc["name"])
                if q in self.funcs:
                    return ("func", self.funcs[q])
                return ("extfunc", enc)
            if enc["k"] == "module":
                return ("module", enc["name"])
            return ("const", enc)
        return None


if __name__ == "__main__":
    r = Repo()
    print(len(r.funcs), "functions;", len(r.classes), "classes")
    print(r.classes["ProvMention"].mro)
    print(r.classes["ProvMention"].class_attr("FORMAL_ATTRIBUTES"))
    print([q for q in r.funcs if "<locals>" in q])
