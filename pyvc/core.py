"""Core data structures of the symbolic executor: values, states, obligations, context."""
import itertools

from . import ty as T
from .smt import AND, NOT, IMPLIES, slit, ilit, PRELUDE, PRELUDE_SORTS


class Unsupported(Exception):
    """The function left the supported Python subset (engine error, never a violation)."""

    def __init__(self, msg, node=None):
        line = getattr(node, "lineno", None)
        Exception.__init__(self, "%s%s" % (msg, " (line %s)" % line if line else ""))
        self.node = node


class SV:
    """symbolic value: SMT term + type descriptor"""

    __slots__ = ("t", "ty")

    def __init__(self, t, ty):
        self.t = t
        self.ty = ty

    def __repr__(self):
        return "SV(%s : %r)" % (self.t if len(self.t) < 60 else self.t[:57] + "...", self.ty)


class PyV:
    """python-level value that never becomes an SMT term (function, class, const tuple ...)"""

    __slots__ = ("kind", "data", "extra")

    def __init__(self, kind, data=None, extra=None):
        self.kind = kind
        self.data = data
        self.extra = extra

    def __repr__(self):
        return "PyV(%s,%r)" % (self.kind, self.data)


class ExcVal:
    def __init__(self, cls, args=(), node=None):
        self.cls = cls  # class name (string)
        self.args = args
        self.node = node

    def __repr__(self):
        return "Exc(%s)" % self.cls


class State:
    __slots__ = ("env", "heap", "pc", "path", "old", "spec", "fn", "ghostonly", "bound")

    def __init__(self, env, heap, pc=(), path=(), old=None, spec=False, fn=None):
        self.env = env
        self.heap = heap
        self.pc = pc
        self.path = path
        self.old = old
        self.spec = spec
        self.fn = fn
        self.bound = ()

    def copy(self, **kw):
        s = State(self.env, self.heap, self.pc, self.path, self.old, self.spec, self.fn)
        s.bound = self.bound
        for k, v in kw.items():
            setattr(s, k, v)
        return s

    def assume(self, *conds):
        conds = tuple(c for c in conds if c != "true")
        if not conds:
            return self
        return self.copy(pc=self.pc + conds)

    def bind(self, name, val):
        env = dict(self.env)
        env[name] = val
        return self.copy(env=env)

    def binds(self, d):
        env = dict(self.env)
        env.update(d)
        return self.copy(env=env)

    def with_heap(self, key, term):
        h = dict(self.heap)
        h[key] = term
        return self.copy(heap=h)

    def step(self, tag):
        return self.copy(path=self.path + (tag,))


class Obligation:
    def __init__(self, name, hyps, goal, decls_upto, meta):
        self.name = name
        self.hyps = hyps
        self.goal = goal
        self.ndecl = decls_upto
        self.meta = meta
        self.result = None  # filled by the solver pool

    def __repr__(self):
        return "<Obl %s>" % self.name


class AxiomList(list):
    """assumptions that are definitional for terms created on one path: each remembers the path it was
    created on and is only asserted in obligations of that path's extensions (facts of sibling paths are noise)"""

    def __init__(self, cx):
        list.__init__(self)
        self.cx = cx
        self.paths = []

    def append(self, term):
        list.append(self, term)
        self.paths.append(self.cx.current_path)

    def extend(self, terms):
        for t in terms:
            self.append(t)

    def for_path(self, path):
        return [t for t, p in zip(self, self.paths) if p is None or path.startswith(p) or p.startswith(path)]


class Ctx:
    """One verification context (one function, lemma or group): collects declarations and
    obligations; every query is printed against the same declaration list."""

    def __init__(self, repo, specs, label):
        self.repo = repo
        self.specs = specs
        self.label = label
        self.sorts = T.Sorts()
        self.sorts.known |= PRELUDE_SORTS
        self.consts = []  # (name, sort)
        self.current_path = None
        self.axioms = AxiomList(self)  # definitional assumptions, tagged with the path that created them
        self.obligations = []
        self.covers = []  # (name, pc, ndecl): path conditions of reached exits (vacuity guard)
        self.trivial = []  # goals the term builder already reduced to `true`
        self.counter = itertools.count()
        self.notes = []
        self.deps = set()  # contracts used at call sites
        self.inlined = set()
        self.dead_paths = 0
        self.exits = 0
        self.pruner = None
        self.class_ids = {n: i + 1 for i, n in enumerate(sorted(repo.classes))}
        self.funs = []  # extra define-fun / declare-fun lines
        self.term_tags = {}  # term of an instantiated specification predicate -> its name
        self.funs_known = {"clsof", "hash_str", "flt_is_zero", "flt_of_int", "flt_eq", "dt_eq", "dt_iso", "dt_str", "flt_repr", "int_of_bool", "py_eq", "ck"}

    def fresh(self, prefix, ty):
        name = "%s!%d" % (prefix.replace(" ", "_"), next(self.counter))
        self.consts.append((name, self.sorts.sort(ty)))
        return SV(name, ty)

    def fresh_sort(self, prefix, sort):
        name = "%s!%d" % (prefix, next(self.counter))
        self.consts.append((name, sort))
        return name

    def oblige(self, name, st, goal, meta=None):
        m = dict(meta or {})
        if goal == "true":
            m.setdefault("path", "".join(st.path))
            self.trivial.append(name + ("#" + m["path"] if m["path"] else ""))
            return
        m.setdefault("path", "".join(st.path))
        full = name + ("#" + m["path"] if m["path"] else "")
        self.obligations.append(Obligation(full, st.pc, goal, len(self.consts), m))

    def cover(self, name, st):
        self.covers.append((name + "#" + "".join(st.path), st.pc, len(self.consts)))

    def cover_query(self, cov):
        out = [self.header()]
        for n, s in self.consts:
            out.append("(declare-const %s %s)" % (n, s))
        for a in self.axioms.for_path(cov[0].split("#", 1)[1] if "#" in cov[0] else ""):
            out.append("(assert %s)" % a)
        for h in cov[1]:
            out.append("(assert %s)" % h)
        out.append("(check-sat)")
        return "\n".join(out)

    def header(self):
        lines = [PRELUDE]
        lines.extend(self.sorts.decls)
        lines.extend(self.funs)
        return "\n".join(lines)

    _SYM = None

    @staticmethod
    def conjuncts(t):
        """top-level conjuncts of an s-expression  (and A B ...)  (the term itself otherwise)"""
        if not t.startswith("(and "):
            return [t]
        out, depth, start, instr = [], 0, None, False
        body = t[5:-1]
        i = 0
        n = len(body)
        while i < n:
            ch = body[i]
            if ch == '"':
                if start is None:
                    start = i
                instr = not instr
            elif not instr:
                if ch == "(":
                    if depth == 0 and start is None:
                        start = i
                    depth += 1
                elif ch == ")":
                    depth -= 1
                    if depth == 0:
                        out.append(body[start:i + 1])
                        start = None
                elif ch.isspace():
                    if depth == 0 and start is not None:
                        out.append(body[start:i])
                        start = None
                elif depth == 0 and start is None:
                    start = i
            i += 1
        if start is not None:
            out.append(body[start:])
        res = []
        for c in out:
            res.extend(Ctx.conjuncts(c))
        return res

    def spec_reach(self):
        if getattr(self, "_reach", None) is None:
            import ast as _ast
            names = set(self.specs.specfns)
            direct = {}
            for n, sf in self.specs.specfns.items():
                direct[n] = {x.id for x in _ast.walk(sf.node) if isinstance(x, _ast.Name) and x.id in names and x.id != n}
            reach = {}
            for n in names:
                seen, todo = set(), [n]
                while todo:
                    x = todo.pop()
                    for y in direct.get(x, ()):
                        if y not in seen:
                            seen.add(y)
                            todo.append(y)
                reach[n] = seen
            self._reach = reach
        return self._reach

    def same_clause_hyps(self, hyps, goal):
        """hypotheses restricted to: untagged facts (path conditions, definitions, axioms) and the conjuncts
        that instantiate the same specification predicates as the goal (the induction hypothesis of an
        invariant is the same predicate).  Dropping hypotheses is sound."""
        tags = self.term_tags

        def tag_of(t):
            if t in tags:
                return tags[t]
            if t.startswith("(=> "):
                parts = Ctx.conjuncts("(and " + t[4:])  # the two arguments of =>
                if len(parts) == 2:
                    return tag_of(parts[1])
            return None

        gt = {tag_of(c) for c in Ctx.conjuncts(goal)} - {None}
        if not gt:
            return None
        # predicates the goal's predicates are built from count as "the same clause"
        reach = self.spec_reach()
        for g in list(gt):
            gt |= reach.get(g, set())
        out = []
        for h in hyps:
            for c in Ctx.conjuncts(h):
                tg = tag_of(c)
                if tg is None or tg in gt:
                    out.append(c)
        # among those, only what talks about the goal's symbols or the symbols of their definitions
        return self.relevant_hyps(out, goal, level=0)

    _BV = None

    @staticmethod
    def skeleton(t):
        """term with generated constants replaced by a placeholder and bound variables renamed in order of
        appearance -> (skeleton, [generated constants in order])"""
        import re
        if Ctx._SYM is None:
            Ctx._SYM = re.compile(r"[A-Za-z_][A-Za-z0-9_<>.]*[!@][0-9]+")
        if Ctx._BV is None:
            Ctx._BV = re.compile(r"(?<![A-Za-z0-9_!@.])[a-z][a-z0-9]*_[0-9]+(?![A-Za-z0-9_!@])")
        syms = Ctx._SYM.findall(t)
        t2 = Ctx._SYM.sub("\u00a7", t)
        m = {}

        def f(mo):
            k = mo.group(0)
            if k not in m:
                m[k] = "%s#%d" % (k.rsplit("_", 1)[0], len(m))
            return m[k]
        return Ctx._BV.sub(f, t2), syms

    def frame_hyps(self, hyps, goal):
        """hypothesis selection for 'the same statement again in a later state': every large conjunct of the
        goal must have a hypothesis conjunct of the same shape (equal up to generated constants and bound
        names); kept are those conjuncts and the small facts relating the constants that differ.  Dropping
        hypotheses is sound."""
        gcs = [c for c in Ctx.conjuncts(goal)]
        big = [c for c in gcs if len(c) > 200]
        if not big:
            return None
        hcs = []
        for h in hyps:
            hcs.extend(Ctx.conjuncts(h))
        index = {}
        for c in hcs:
            if len(c) > 200:
                sk, sy = Ctx.skeleton(c)
                index.setdefault(sk, []).append((c, sy))
        chosen, diff = [], set()
        for g in big:
            sk, sy = Ctx.skeleton(g)
            cands = index.get(sk)
            if not cands:
                return None
            # the candidate differing in the fewest constants
            best = min(cands, key=lambda cs: sum(1 for a, b in zip(sy, cs[1]) if a != b))
            chosen.append(best[0])
            for a, b in zip(sy, best[1]):
                if a != b:
                    diff.add(a)
                    diff.add(b)
        import re
        small = []
        used = 0
        gsy = set(Ctx._SYM.findall(goal))
        for c in hcs:
            if len(c) <= 700 and c not in chosen:
                ss = set(Ctx._SYM.findall(c))
                if ss & diff or (ss and ss <= gsy and len(c) <= 300):
                    if used + len(c) < 30000:
                        small.append(c)
                        used += len(c)
        return chosen + small

    def relevant_hyps(self, hyps, goal, rounds=3, level=1):
        """hypothesis selection by distance in the symbol graph (generated constants, names containing ! or @):
        breadth-first from the goal's symbols, nearest and smallest facts first, until a size budget is used
        up.  Dropping hypotheses is always sound; the full query is the fallback."""
        import re
        if Ctx._SYM is None:
            Ctx._SYM = re.compile(r"[A-Za-z_][A-Za-z0-9_<>.]*[!@][0-9]+")
        syms = [set(Ctx._SYM.findall(h)) for h in hyps]
        budget = 120000 if level else 40000
        dist = [None] * len(hyps)
        frontier = set(Ctx._SYM.findall(goal))
        seen = set(frontier)
        d = 0
        while frontier and d < 6:
            nxt = set()
            for i, ss in enumerate(syms):
                if dist[i] is None and (ss & frontier):
                    dist[i] = d
                    # big facts do not propagate relevance further (they mention almost everything)
                    if len(hyps[i]) < 3000:
                        nxt |= ss - seen
            seen |= nxt
            frontier = nxt
            d += 1
        order = sorted((i for i in range(len(hyps)) if dist[i] is not None or not syms[i]),
                       key=lambda i: (dist[i] if dist[i] is not None else 0, len(hyps[i])))
        out, used = [], 0
        for i in order:
            if used + len(hyps[i]) > budget and (dist[i] or 0) > 0:
                continue
            out.append(i)
            used += len(hyps[i])
        out.sort()
        return [hyps[i] for i in out]

    def query(self, ob, negate=True, extra="", relevant=False, level=1):
        """SMT-LIB text: hypotheses /\\ not goal  (unsat == obligation holds)."""
        out = [self.header()]
        for n, s in self.consts:
            out.append("(declare-const %s %s)" % (qsym(n), s))
        hyps = self.axioms.for_path(ob.meta.get("path", "")) + list(ob.hyps)
        if relevant and level == "same":
            hh = self.same_clause_hyps(hyps, ob.goal)
            if hh is None:
                return None
            hyps = hh
        elif relevant and isinstance(level, str) and level.startswith("small"):
            # every hypothesis conjunct larger than N characters is dropped (the big ones are whole-structure
            # invariants that most goals do not need and that drown the solvers); dropping is sound
            n_ = int(level[5:])
            hh = []
            for h in hyps:
                for cj in Ctx.conjuncts(h):
                    if len(cj) <= n_:
                        hh.append(cj)
            hyps = hh
        elif relevant and level == "frame":
            hh = self.frame_hyps(hyps, ob.goal)
            if hh is None:
                return None
            hyps = hh
        elif relevant:
            hyps = self.relevant_hyps(hyps, ob.goal, level=level)
        for h in hyps:
            out.append("(assert %s)" % h)
        if False:
            pass
        for h in ():
            out.append("(assert %s)" % h)
        if negate:
            out.append("(assert (not %s))" % ob.goal)
        else:
            out.append("(assert %s)" % ob.goal)
        out.append(extra)
        out.append("(check-sat)")
        return "\n".join(out)

    def sat_query(self, pc):
        out = [self.header()]
        for n, s in self.consts:
            out.append("(declare-const %s %s)" % (qsym(n), s))
        for a in self.axioms:
            out.append("(assert %s)" % a)
        for h in pc:
            out.append("(assert %s)" % h)
        return "\n".join(out)


def qsym(n):
    return n
