"""Sidecar contract files: Python *syntax*, parsed with ast and never executed.

Top-level forms
  schema("Class", dict_of=("str","Ns"), fields={...}, ghost={...}, abstraction={...})
  inline("prov.identifier.Namespace.uri", ...)      -- accessors executed through their real body
  @spec def P(x: "T", ...) -> "bool": <pure statements ending in return>
  @contract("qualified.name", props=[...]) def f(params with annotations) -> "T":
        requires([name,] e); ensures(name, e); modifies(obj, "field", ...);
        raises(Exc, when=e, ensures=e); invariant(loop_id, e); ghost_set(obj, "field", e)
        old_snapshot(...)
  @lemma("name", props=[...]) def l(x: "T", ...): assume(e); prove(name, e)
"""
import ast
import os

from . import ty as T


class SpecError(Exception):
    pass


def parse_type(s):
    s = s.strip()
    node = ast.parse(s, mode="eval").body
    return _ptype(node)


_BASE = {
    "str": T.STR,
    "int": T.INT,
    "bool": T.BOOL,
    "Ns": T.NS,
    "QN": T.QN,
    "Ident": T.IDENT,
    "Lit": T.LIT,
    "Val": T.VAL,
    "Flt": T.FLT,
    "DT": T.DT,
    "bytes": T.BYTES,
    "pyobj": T.PYOBJ,
    "none": T.NONE,
    "VSet": T.VSET,
    "cls": T.CLS,
    "OSet": T.OSET,
    "RKey": T.RKEY,
    "JRep": T.JREP,
    "Handle": T.HANDLE,
}


def _ptype(n):
    if isinstance(n, ast.Name):
        if n.id in _BASE:
            return _BASE[n.id]
        # bare class name = reference to a heap object of that class
        return T.Ref(n.id)
    if isinstance(n, ast.Subscript):
        head = n.value.id
        args = n.slice.elts if isinstance(n.slice, ast.Tuple) else [n.slice]
        args = [_ptype(a) for a in args]
        if head == "Opt":
            return T.Opt(args[0])
        if head == "Ref":
            return T.Ref(ast.unparse(n.slice))
        if head == "Map":
            return T.Map(args[0], args[1])
        if head == "Set":
            return T.SetT(args[0])
        if head == "Seq":
            return T.Seq(args[0])
        if head == "QMap":
            return T.QMap(args[0])
        if head == "Tup":
            return T.Tup(*args)
    if isinstance(n, ast.Constant) and isinstance(n.value, str):
        return parse_type(n.value)
    raise SpecError("cannot parse type " + ast.unparse(n))


class Schema:
    def __init__(self, cls):
        self.cls = cls
        self.fields = {}  # name -> type
        self.ghost = {}
        self.dict_of = None  # (K, V) for dict subclasses
        self.abstraction = {}  # value classes: field -> spec expression (ast) over `self`
        self.owned = set()

    def field_type(self, name):
        if name in self.fields:
            return self.fields[name]
        if name in self.ghost:
            return self.ghost[name]
        return None


class SpecFn:
    def __init__(self, name, node, file):
        self.name = name
        self.node = node
        self.file = file
        self.params = [(a.arg, _ann(a)) for a in node.args.args]
        self.ret = _ptype(node.returns) if node.returns is not None else T.BOOL
        self.opaque = False


def _ann(a):
    if a.annotation is None:
        raise SpecError("parameter %s needs a type annotation" % a.arg)
    return _ptype(a.annotation)


class Raises:
    def __init__(self, exc, when, ensures, name):
        self.exc = exc
        self.when = when
        self.ensures = ensures
        self.name = name


class Contract:
    def __init__(self, target, node, file, props):
        self.target = target
        self.node = node
        self.file = file
        self.props = props
        self.params = [(a.arg, _ann(a)) for a in node.args.args]
        self.defaults = {}
        nd = len(node.args.defaults)
        if nd:
            for a, d in zip(node.args.args[-nd:], node.args.defaults):
                self.defaults[a.arg] = d
        self.ret = _ptype(node.returns) if node.returns is not None else T.NONE
        self.requires = []  # (name, expr)
        self.ensures = []  # (name, expr)
        self.modifies = []  # (objexpr, [fields])
        self.raises = []  # Raises
        self.modifies_where = []
        self.modifies_fs = False
        self.allocates_when = {}
        self.invariants = {}  # loop id -> [(name, expr)]
        self.ghost_sets = []  # (objexpr, field, expr)
        self.after_loop = {}  # loop id -> [(name, expr)] asserted (checked, then assumed) at the loop's normal exit
        self.axioms = []  # (name, expr): theory facts assumed in this unit
        self.asserts = {}  # normalised statement source -> [(name, expr)]
        self.uses = {}  # callee target -> clause names assumed at call sites (dropping hypotheses is sound)
        self.allocates = []  # classes of which the function may allocate new objects
        self.comp_elt = None  # element type of the list comprehension the function returns
        self.reveals = []  # opaque specification functions whose definition this unit may use
        self.internal = set()
        self.using = {}  # ensures clause -> earlier clauses of this contract used as lemmas for it
        self.findings = {}  # clause name -> (finding id, case expr)
        self.assume_only = False  # external/trusted contract: never verified
        self.pure = False
        self.cases = []  # (name, expr) : verification is split per case
        self.let = []  # (name, expr) evaluated in the pre-state, visible to all clauses
        self.decreases = None
        self.notes = []
        self._parse_body()

    def _parse_body(self):
        for st in self.node.body:
            if isinstance(st, ast.Expr) and isinstance(st.value, ast.Constant):
                continue  # docstring
            if isinstance(st, ast.Pass):
                continue
            if isinstance(st, ast.Assign) and len(st.targets) == 1 and isinstance(
                st.targets[0], ast.Name
            ):
                self.let.append((st.targets[0].id, st.value))
                continue
            if not (isinstance(st, ast.Expr) and isinstance(st.value, ast.Call)):
                raise SpecError(
                    "%s: contract bodies contain only clause calls (line %d)"
                    % (self.target, st.lineno)
                )
            call = st.value
            fn = call.func.id
            a = call.args
            kw = {k.arg: k.value for k in call.keywords}
            if fn == "requires":
                if len(a) == 2:
                    self.requires.append((a[0].value, a[1]))
                else:
                    self.requires.append(("pre%d" % (len(self.requires) + 1), a[0]))
            elif fn == "ensures":
                nm = a[0].value if len(a) == 2 else "post%d" % (len(self.ensures) + 1)
                expr = a[-1]
                if "unless" in kw:
                    # known finding: the clause is claimed only outside the recorded failing case
                    self.findings[nm] = (kw["finding"].value, kw["unless"])
                    expr = ast.BoolOp(op=ast.Or(), values=[expr, kw["unless"]])
                    ast.copy_location(expr, a[-1])
                    ast.fix_missing_locations(expr)
                self.ensures.append((nm, expr))
                if "using" in kw:
                    self.using[nm] = [x.value for x in kw["using"].elts]
                if "internal" in kw:
                    self.internal.add(nm)  # a stepping stone of this unit's proof: not exported to callers
            elif fn == "modifies":
                self.modifies.append((a[0], [x.value for x in a[1:]]))
            elif fn == "modifies_fs":
                self.modifies_fs = True      # the ghost file system (fs_get) may change
            elif fn == "modifies_where":
                # modifies_where(lambda x: cond(x), "Class", "field", ...): the fields of every object of the class
                # that satisfies cond in the pre-state may change (a set of objects, not one)
                self.modifies_where.append((a[0], a[1].value, [x.value for x in a[2:]]))
            elif fn == "raises":
                self.raises.append(
                    Raises(
                        ast.unparse(a[0]),
                        kw.get("when"),
                        kw.get("ensures"),
                        kw["name"].value if "name" in kw else ast.unparse(a[0]),
                    )
                )
            elif fn == "invariant":
                name = a[1].value if len(a) == 3 else "inv%d" % (
                    len(self.invariants.get(a[0].value, [])) + 1
                )
                self.invariants.setdefault(a[0].value, []).append((name, a[-1]))
            elif fn == "after_loop":
                self.after_loop.setdefault(a[0].value, []).append((a[1].value, a[2]))
            elif fn == "ghost_set":
                self.ghost_sets.append((a[0], a[1].value, a[2]))
            elif fn == "trusted":
                self.assume_only = True
                if a:
                    self.notes.append(a[0].value)
            elif fn == "axiom":
                # a valid fact of the underlying theories that the solvers do not derive on their own: assumed when
                # this unit is verified (not a precondition), listed in the evidence
                self.axioms.append((a[0].value, a[1]))
            elif fn == "assert_at":
                # assert_at("<statement source>", name, expr): checked, then assumed, right before the statement
                self.asserts.setdefault(" ".join(a[0].value.split()), []).append((a[1].value, a[2]))
            elif fn == "uses":
                # at this function's call sites of a[0], only the named postcondition clauses are assumed
                self.uses[a[0].value] = set(x.value for x in a[1:])
            elif fn == "allocates":
                self.allocates.extend(x.value for x in a)
                if "when" in kw:
                    # allocates("C", when=e): objects of class C are only allocated by calls in which e holds
                    for x in a:
                        self.allocates_when[x.value] = kw["when"]
            elif fn == "comprehension_elt":
                self.comp_elt = parse_type(a[0].value)
            elif fn == "reveal":
                self.reveals.extend(x.value for x in a)
            elif fn == "pure":
                self.pure = True
            elif fn == "case":
                self.cases.append((a[0].value, a[1]))
            elif fn == "note":
                self.notes.append(a[0].value)
            elif fn == "decreases":
                self.decreases = a[0]
            else:
                raise SpecError("%s: unknown clause %s" % (self.target, fn))


class Lemma:
    def __init__(self, name, node, file, props):
        self.name = name
        self.node = node
        self.file = file
        self.props = props
        self.params = [(a.arg, _ann(a)) for a in node.args.args]
        self.assumes = []
        self.reveals = []
        self.proves = []
        self.let = []
        for st in node.body:
            if isinstance(st, ast.Expr) and isinstance(st.value, ast.Constant):
                continue
            if isinstance(st, ast.Assign):
                self.let.append((st.targets[0].id, st.value))
                continue
            call = st.value
            fn = call.func.id
            if fn == "reveal":
                self.reveals.extend(x.value for x in call.args)
            elif fn == "assume":
                self.assumes.append(call.args[0])
            elif fn == "prove":
                self.proves.append((call.args[0].value, call.args[1]))
            else:
                raise SpecError("lemma %s: unknown clause %s" % (name, fn))


class Specs:
    def __init__(self):
        self.schemas = {}
        self.specfns = {}
        self.contracts = {}  # target qualname -> Contract
        self.lemmas = {}
        self.inline = set()
        self.consts = {}  # name -> ast expr (spec-level constants)
        self.files = []

    def load_dir(self, d):
        for fn in sorted(os.listdir(d)):
            if fn.endswith(".py") and not fn.startswith("_"):
                self.load_file(os.path.join(d, fn))
        return self

    def load_file(self, path):
        self.files.append(path)
        tree = ast.parse(open(path).read(), filename=path)
        for node in tree.body:
            if isinstance(node, ast.Expr) and isinstance(node.value, ast.Constant):
                continue
            if isinstance(node, ast.Expr) and isinstance(node.value, ast.Call):
                call = node.value
                fn = call.func.id
                if fn == "schema":
                    self._schema(call)
                elif fn == "inline":
                    for a in call.args:
                        self.inline.add(a.value)
                else:
                    raise SpecError("%s: unknown top-level form %s" % (path, fn))
            elif isinstance(node, ast.FunctionDef):
                decs = node.decorator_list
                if len(decs) != 1:
                    raise SpecError("%s: %s needs exactly one decorator" % (path, node.name))
                d = decs[0]
                if isinstance(d, ast.Name) and d.id == "spec":
                    self.specfns[node.name] = SpecFn(node.name, node, path)
                elif isinstance(d, ast.Name) and d.id == "opaque_spec":
                    sf = SpecFn(node.name, node, path)
                    sf.opaque = True
                    self.specfns[node.name] = sf
                elif isinstance(d, ast.Call) and d.func.id == "contract":
                    target = d.args[0].value
                    kw = {k.arg: k.value for k in d.keywords}
                    props = [e.value for e in kw["props"].elts] if "props" in kw else []
                    c = Contract(target, node, path, props)
                    if target in self.contracts:
                        raise SpecError("duplicate contract for " + target)
                    self.contracts[target] = c
                elif isinstance(d, ast.Call) and d.func.id == "lemma":
                    name = d.args[0].value
                    kw = {k.arg: k.value for k in d.keywords}
                    props = [e.value for e in kw["props"].elts] if "props" in kw else []
                    self.lemmas[name] = Lemma(name, node, path, props)
                else:
                    raise SpecError("%s: unknown decorator on %s" % (path, node.name))
            elif isinstance(node, ast.Assign) and isinstance(node.targets[0], ast.Name):
                self.consts[node.targets[0].id] = node.value
            elif isinstance(node, (ast.Import, ast.ImportFrom)):
                continue
            else:
                raise SpecError("%s: unsupported top-level statement at line %d" % (path, node.lineno))

    def _schema(self, call):
        cls = call.args[0].value
        sc = self.schemas.setdefault(cls, Schema(cls))
        for k in call.keywords:
            if k.arg == "fields":
                for kk, vv in zip(k.value.keys, k.value.values):
                    sc.fields[kk.value] = _ptype(vv)
            elif k.arg == "ghost":
                for kk, vv in zip(k.value.keys, k.value.values):
                    sc.ghost[kk.value] = _ptype(vv)
            elif k.arg == "dict_of":
                sc.dict_of = (_ptype(k.value.elts[0]), _ptype(k.value.elts[1]))
            elif k.arg == "abstraction":
                for kk, vv in zip(k.value.keys, k.value.values):
                    sc.abstraction[kk.value] = vv
            else:
                raise SpecError("schema: unknown keyword " + k.arg)
