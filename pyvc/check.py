"""./check <property> --tier quick|thorough : decide one property on /repo's working tree.

Exit codes (DESIGN 2.2): 0 held / 1 VIOLATION / 2 undecided / 3 engine error.
"""
import argparse
import concurrent.futures as cf
import hashlib
import json
import multiprocessing as mp
import os
import re
import subprocess
import sys
import signal
import time
import traceback

from . import VERIF, REPO, NATIVE_PY
from . import solve
from .load import Repo
from .run import load_specs, run_contract, run_lemma

_G = {}


def _init():
    sys.setrecursionlimit(40000)


class SxTimeout(BaseException):
    pass


def sx_unit(job):
    kind, name = job
    repo, specs = _G["repo"], _G["specs"]
    t0 = time.time()
    # symbolic execution has no solver in the loop that could time out: a changed body can make the number of paths
    # explode.  The slowest unit on the reference tree takes about a minute; past the limit the unit is reported as
    # an engine error (exit 3 unless the bounded battery shows a failing input), never as a verdict.
    limit = int(os.environ.get("PYVC_SX_LIMIT", "600"))

    def _too_long(signum, frame):
        raise SxTimeout("symbolic execution of this unit exceeded %d s (path explosion?)" % limit)
    old_handler = signal.signal(signal.SIGALRM, _too_long)
    signal.alarm(limit)
    try:
        if kind == "contract":
            ur = run_contract(repo, specs, specs.contracts[name])
        else:
            ur = run_lemma(repo, specs, specs.lemmas[name])
    except SxTimeout as e:
        return {"name": name, "kind": kind, "error": "unsupported: %s" % e}
    except Exception as e:  # pragma: no cover
        return {"name": name, "kind": kind, "error": "engine: %s\n%s" % (e, traceback.format_exc()[-1200:])}
    finally:
        signal.alarm(0)
        signal.signal(signal.SIGALRM, old_handler)
    cx = ur.cx
    out = {
        "name": ur.name, "kind": kind, "error": ur.error, "sx_time": round(time.time() - t0, 2),
        "obligations": [], "trivial": list(cx.trivial), "covers": [], "deps": sorted(cx.deps),
        "inlined": sorted(cx.inlined), "dead_paths": cx.dead_paths, "exits": cx.exits, "notes": cx.notes[:10],
    }
    if kind == "contract":
        fi = repo.func(specs.contracts[name].target.split('#')[0])
        out["span"] = [os.path.relpath(fi.module.path, repo.root), fi.span[0], fi.span[1]]
        out["findings"] = {k: v[0] for k, v in specs.contracts[name].findings.items()}
    if ur.error is None:
        for ob in cx.obligations:
            out["obligations"].append({"name": ob.name, "query": cx.query(ob), "query_rel": cx.query(ob, relevant=True), "query_dir": cx.query(ob, relevant=True, level=0), "query_same": cx.query(ob, relevant=True, level="same"), "query_frame": cx.query(ob, relevant=True, level="frame"),
                                        "query_s3": cx.query(ob, relevant=True, level="small3000"), "query_s8": cx.query(ob, relevant=True, level="small8000"), "meta": ob.meta})
        covs = cx.covers
        if len(covs) > 6:
            step = len(covs) / 6.0
            covs = [covs[int(i * step)] for i in range(6)]
        for cov in covs:
            out["covers"].append({"name": cov[0], "query": cx.cover_query(cov)})
    return out


def clause_of(obname):
    # "<unit>[#variant]/<clause>[@line]#<path>" -> without the path suffix (a '#' in the unit name is a variant marker)
    i = obname.rfind("/")
    j = obname.find("#", i if i >= 0 else 0)
    name = obname[:j] if j >= 0 else obname
    # line numbers ("@1234") are dropped: an edit elsewhere in the file must not rename the clause
    return re.sub(r"@\d+", "@", name)


def discharge_all(units, timeout_s, jobs, thorough, retry=frozenset()):
    tasks = []
    for u in units:
        for ob in u.get("obligations", []):
            tasks.append(ob)

    def one(ob):
        # the full query and the one restricted to the goal's cone of influence race (dropping hypotheses is
        # sound); then the definitions-only variant; in the thorough tier a last attempt with all back ends
        qrel, qdir = ob.pop("query_rel"), ob.pop("query_dir")
        cv = [("cvc5-1.0.3", solve.BACKENDS["cvc5-1.0.3"])]
        # stage 1 (cheap, decides most obligations): cone-of-influence query on cvc5, short budget
        qsame = ob.pop("query_same", None)
        qframe = ob.pop("query_frame", None)
        r = None
        if qframe:
            # stage 0: "the same statement again in a later state" (shape-matched hypotheses only)
            r = solve.solve_multi([("frame", qframe, False)], min(timeout_s, 10.0))
        if r is None or r["status"] != "unsat":
            first = [("rel", qrel, False)] + ([("same", qsame, False)] if qsame else [])
            r0 = r
            r = solve.solve_multi(first, 3.0, backends=cv)
            if r0 is not None:
                r["tried"] = {**r0.get("tried", {}), **r.get("tried", {})}
        qs3, qs8 = ob.pop("query_s3", None), ob.pop("query_s8", None)
        if r["status"] != "unsat" and qs3:
            # stage 1b: without the large hypothesis conjuncts (whole-structure invariants), both back ends
            r1 = solve.solve_multi([("small3k", qs3, False), ("small8k", qs8, False)], min(timeout_s, 15.0))
            r1["tried"] = {**r.get("tried", {}), **r1.get("tried", {})}
            if r1["status"] == "unsat":
                r = r1
            else:
                r["tried"] = r1["tried"]
        if r["status"] != "unsat":
            # stage 2: the full query on both back ends races the definitions-only query
            r2 = solve.solve_multi([("full", ob["query"], True), ("rel", qrel, False)] + ([("same", qsame, False)] if qsame else []), timeout_s)
            r2["tried"] = {**{k_ + "#1": v_ for k_, v_ in r.get("tried", {}).items()}, **r2.get("tried", {})}
            r = r2
        if r["status"] not in ("unsat", "sat"):
            r2 = solve.solve_multi([("dir", qdir, False)], min(timeout_s, 10.0))
            r2["tried"] = {**r.get("tried", {}), **r2.get("tried", {})}
            if r2["status"] == "unsat":
                r = r2
            else:
                r["tried"] = r2["tried"]
        # last attempt with all back ends and a triple budget: in the thorough tier always; in the quick tier for
        # clauses that were proved on the reference tree (a lost proof is reported as a violation, so a verdict
        # that merely ran out of time once must not count)
        if r["status"] not in ("unsat", "sat") and (thorough or clause_of(ob["name"]) in retry):
            r3 = solve.solve_multi([("full3", ob["query"], True)], timeout_s * 3, backends=list(solve.BACKENDS.items()))
            r3["tried"] = {**r.get("tried", {}), **r3.get("tried", {})}
            r = r3
        ob["result"] = {k: r.get(k) for k in ("status", "backend", "time", "tried", "variant")}
        if r["status"] != "unsat":
            ob["result"]["detail"] = r.get("detail", "")[:1500]
        return ob

    t0 = time.time()
    with cf.ThreadPoolExecutor(max_workers=jobs) as pool:
        list(pool.map(one, tasks))

    def cov(c):
        r = solve.solve_one(c["query"], 2.0, backends=[("z3-5.1.0", solve.BACKENDS["z3-5.1.0"])])
        c["status"] = r["status"]
        return c

    covers = [c for u in units for c in u.get("covers", [])]
    with cf.ThreadPoolExecutor(max_workers=jobs) as pool:
        list(pool.map(cov, covers))
    return time.time() - t0


def native(script, args, repo_root, timeout=600):
    env = dict(os.environ)
    env["PYTHONPATH"] = os.path.join(repo_root, "src") + os.pathsep + VERIF
    env.pop("PROV_VERIF", None)
    p = subprocess.run([NATIVE_PY, os.path.join(VERIF, script)] + args, env=env, capture_output=True,
                       text=True, timeout=timeout, cwd=VERIF)
    return p.returncode, p.stdout, p.stderr


def main(argv=None):
    ap = argparse.ArgumentParser()
    ap.add_argument("prop")
    ap.add_argument("--tier", default=os.environ.get("VERIF_TIER", "quick"))
    ap.add_argument("--replay", default=None)
    ap.add_argument("--update-baseline", action="store_true")
    ap.add_argument("--jobs", type=int, default=int(os.environ.get("PYVC_JOBS", "16")))
    a = ap.parse_args(argv)
    prop = a.prop
    tier = "thorough" if a.tier.startswith("t") else "quick"
    seed = int(os.environ.get("VERIF_SEED", "0") or 0)
    from .props import PROPS
    P = PROPS[prop]
    if a.replay:
        rc, out, err = native(P["driver"], ["--replay", a.replay], REPO)
        sys.stdout.write(out)
        sys.stderr.write(err)
        return rc
    t_start = time.time()
    _init()
    scratch = os.path.realpath(REPO) != "/repo"
    # evidence/ and replays/ describe /repo itself; runs against a scratch copy (PROV_REPO) write elsewhere
    ev_path = os.path.join(VERIF, ".build", "scratch", "evidence", prop + ".json") if scratch else os.path.join(VERIF, "evidence", prop + ".json")
    os.makedirs(os.path.dirname(ev_path), exist_ok=True)
    try:
        repo = Repo()
        specs = load_specs()
    except Exception as e:
        print("ENGINE-ERROR loading: %s" % e)
        traceback.print_exc()
        return 3
    _G["repo"], _G["specs"] = repo, specs
    jobs = []
    for tgt, c in specs.contracts.items():
        if prop in c.props and not c.assume_only:
            jobs.append(("contract", tgt))
    for name, lem in specs.lemmas.items():
        if prop in lem.props:
            jobs.append(("lemma", name))
    if not jobs and not P.get("bounded_only"):
        print("ENGINE-ERROR no contract or lemma is tagged with %s" % prop)
        return 3
    units = []
    if jobs:
        ctx = mp.get_context("fork")
        with ctx.Pool(min(a.jobs, len(jobs)), initializer=_init) as pool:
            units = pool.map(sx_unit, jobs, chunksize=1)
        # a unit that ran into the time limit is tried once more, alone (one such stall was seen on a loaded machine
        # for a unit that normally takes seconds)
        for k, u in enumerate(units):
            if u.get("error") and "symbolic execution of this unit exceeded" in u["error"]:
                units[k] = sx_unit(jobs[k])
    timeout_s = P.get("timeout", 10.0) * (3 if tier == "thorough" else 1)
    _bp = os.path.join(VERIF, "baseline", prop + ".json")
    _retry = frozenset(json.load(open(_bp))["clauses"]) if os.path.exists(_bp) else frozenset()
    solver_wall = discharge_all(units, timeout_s, max(4, a.jobs // 2), tier == "thorough", retry=_retry)

    # ------------------------------------------------------------------ verdicts
    engine_errors = [u for u in units if u.get("error")]
    all_obs = [ob for u in units for ob in u.get("obligations", [])]
    n_triv = sum(len(u.get("trivial", [])) for u in units)
    failed = [ob for ob in all_obs if ob["result"]["status"] != "unsat"]
    vacuous = []
    for u in units:
        covs = u.get("covers", [])
        if covs and all(c["status"] == "unsat" for c in covs):
            vacuous.append(u["name"])
    base_path = os.path.join(VERIF, "baseline", prop + ".json")
    baseline = json.load(open(base_path)) if os.path.exists(base_path) else {"clauses": []}
    base_clauses = set(baseline["clauses"])
    now_clauses = {}
    for u in units:
        for ob in u.get("obligations", []):
            now_clauses.setdefault(clause_of(ob["name"]), []).append(ob["result"]["status"] == "unsat")
        for t in u.get("trivial", []):
            now_clauses.setdefault(clause_of(t), []).append(True)
    proved_clauses = sorted(c for c, v in now_clauses.items() if all(v))
    if a.update_baseline:
        os.makedirs(os.path.dirname(base_path), exist_ok=True)
        json.dump({"property": prop, "sources": repo.sha, "clauses": proved_clauses}, open(base_path, "w"), indent=1)
        print("baseline written: %d clauses" % len(proved_clauses))
    lost_units = sorted(b for b in baseline.get("units", []) if b not in {u["name"] for u in units})

    # syntactic scans (single-writer / ownership) ---------------------------
    scan_results = []
    if P.get("scans"):
        from .scans import run_scans
        scan_results = run_scans(repo, P["scans"])

    # known findings ------------------------------------------------------
    kf_all = json.load(open(os.path.join(VERIF, "known_findings.json")))
    kfs = [k for k in kf_all["findings"] if k["property"] == prop]
    kf_lines = []
    kf_repro = 0
    for kf in kfs:
        rc, out, err = native(kf["replay"], [], REPO)
        if "REPRODUCED" in out and "NOT-REPRODUCED" not in out:
            kf_repro += 1
            kf_lines.append("KNOWN-FINDING: property=%s %s [%s]" % (prop, kf["what"], kf["id"]))
        else:
            kf_lines.append("note: known finding %s no longer reproduces on this tree (entry due for removal)" % kf["id"])

    # native battery (replay step / search for a failing input) ------------
    violations = []
    undecided = []
    replay_dir = os.path.join(VERIF, ".build", "scratch", "replays", prop) if scratch else os.path.join(VERIF, "replays", prop)
    driver_result = None
    failed_clauses = sorted({clause_of(ob["name"]) for ob in failed})
    engine_errors_early = [u for u in units if u.get("error")]
    scans_failed = any(not x["ok"] for x in scan_results) if P.get("scans") else False
    if failed_clauses or tier == "thorough" or P.get("always_native") or engine_errors_early or scans_failed:
        if P.get("driver"):
            os.makedirs(replay_dir, exist_ok=True)
            out_json = os.path.join(replay_dir, "native_search.json")
            if os.path.exists(out_json):
                os.remove(out_json)             # never read a result left by an earlier run
            try:
                rc, out, err = native(P["driver"], ["--search", "--tier", tier, "--seed", str(seed), "--out", out_json],
                                      REPO, timeout=P.get("driver_timeout", 900))
                driver_result = {"rc": rc, "tail": (out + err)[-1500:]}
                if os.path.exists(out_json):
                    driver_result.update(json.load(open(out_json)))
            except subprocess.TimeoutExpired:
                driver_result = {"rc": None, "tail": "native search timed out"}
    known_inputs = {k["id"] for k in kfs}
    native_fail = []
    if driver_result and driver_result.get("failures"):
        for f in driver_result["failures"]:
            if f.get("kf") in known_inputs:
                continue
            native_fail.append(f)

    matched_native = set()
    for cl in failed_clauses:
        obs = [ob for ob in failed if clause_of(ob["name"]) == cl]
        was_proved = cl in base_clauses
        rp = os.path.join(replay_dir, re.sub(r"[^A-Za-z0-9_.-]+", "_", cl) + ".json")
        os.makedirs(replay_dir, exist_ok=True)
        rel = [f for f in native_fail if any(c.split("[")[0] in cl for c in f.get("clauses", [])) or not f.get("clauses")]
        info = {
            "property": prop, "obligation": cl, "was_proved_on_reference_tree": was_proved,
            "paths": [{"name": ob["name"], "status": ob["result"]["status"], "tried": ob["result"]["tried"],
                       "solver_output": ob["result"].get("detail", "")} for ob in obs[:8]],
            "clause": obs[0]["meta"].get("clause"), "native_failing_inputs": rel[:5],
            "replay_cmd": "./check %s --replay %s" % (prop, os.path.relpath(rp, VERIF)),
        }
        json.dump(info, open(rp, "w"), indent=1)
        matched_native.update(f.get("key") for f in rel)
        if rel:
            violations.append((cl, rp, ""))
        elif any(ob["result"]["status"] == "sat" for ob in obs) or was_proved:
            violations.append((cl, rp, " no-failing-input-found"))
        else:
            undecided.append(cl)
    # a failing native input without any failed obligation is a hole in the contracts: report it too
    for sr in scan_results:
        if sr["ok"]:
            continue
        rp = os.path.join(replay_dir, re.sub(r"[^A-Za-z0-9_.-]+", "_", sr["name"]) + ".json")
        os.makedirs(replay_dir, exist_ok=True)
        json.dump({"property": prop, "obligation": sr["name"], "detail": sr["detail"], "native_failing_inputs": []}, open(rp, "w"), indent=1)
        if sr["name"].startswith(("scan:no-leak", "scan:fresh-store", "scan:export-frame", "scan:export-determinism", "scan:spec-tables", "scan:atomic-write")):
            violations.append((sr["name"], rp, " no-failing-input-found"))
        elif sr["name"].startswith("scan:export-purity"):
            undecided.append(sr["name"] + " (an exporter keeps state across calls that is not among the recorded stores: the output may depend on the call history; needs review - " + str(sr["detail"])[-260:] + ")")
        else:
            undecided.append(sr["name"] + " (a function outside the contracts writes this field: it needs a contract)")
    native_fail = [f for f in native_fail if f.get("key") not in matched_native]
    if native_fail:
        rp = os.path.join(replay_dir, "native_only.json")
        json.dump({"property": prop, "obligation": None, "native_failing_inputs": native_fail[:5],
                   "engine_errors": [{"unit": u["name"], "error": u["error"]} for u in engine_errors_early],
                   "note": "the functions named under engine_errors left the verifier's Python subset on this tree; "
                           "the bounded native battery (not proof) found the failing input below"},
                  open(rp, "w"), indent=1)
        violations.append(("native-battery(bounded)", rp, ""))

    wall = time.time() - t_start
    by_backend = {}
    for ob in all_obs:
        if ob["result"]["status"] == "unsat":
            b = ob["result"]["backend"]
            d = by_backend.setdefault(b, {"count": 0, "seconds": 0.0})
            d["count"] += 1
            d["seconds"] = round(d["seconds"] + ob["result"]["time"], 3)
    samples = []
    for ob in all_obs[:: max(1, len(all_obs) // 6)][:6]:
        samples.append({"obligation": ob["name"], "kind": ob["meta"].get("kind"), "clause": ob["meta"].get("clause"),
                        "status": ob["result"]["status"], "backend": ob["result"]["backend"],
                        "query_sha1": hashlib.sha1(ob["query"].encode()).hexdigest()[:12],
                        "query_bytes": len(ob["query"])})
    ev = {
        "property_id": prop, "tier": tier, "seed": seed, "level": P["level"],
        "coverage": {
            "obligations": len(all_obs) + n_triv,
            "discharged": len(all_obs) - len(failed) + n_triv,
            "discharged_by_solver": len(all_obs) - len(failed),
            "discharged_by_term_simplifier": n_triv,
            "checker_cmd": "./check %s --tier %s   (pyvc VC generator -> /usr/bin/cvc5 --strings-exp, z3-new, /usr/bin/z3)" % (prop, tier),
            "trusted_base": P["trusted_base"],
            "functions_under_contract": [{"function": u["name"], "source": u.get("span"), "obligations": len(u.get("obligations", [])),
                                          "trivial": len(u.get("trivial", [])), "paths_to_exits": u.get("exits"),
                                          "dead_paths_pruned": u.get("dead_paths"), "callee_contracts_used": u.get("deps"),
                                          "inlined_accessors": u.get("inlined"), "symbolic_execution_s": u.get("sx_time")}
                                         for u in units if u["kind"] == "contract"],
            "lemmas": [u["name"] for u in units if u["kind"] == "lemma"],
            "by_backend": by_backend, "solver_wall_s": round(solver_wall, 1),
            "covers_checked": sum(len(u.get("covers", [])) for u in units),
            "covers_unsat_dead": sum(1 for u in units for c in u.get("covers", []) if c["status"] == "unsat"),
            "clauses_proved": len(proved_clauses), "clauses_in_reference_baseline": len(base_clauses),
            "known_findings_reproduced": kf_repro, "samples": samples,
            "native_battery": {k: driver_result.get(k) for k in ("evaluations", "distinct", "rule", "failures_found")} if driver_result else None,
            "syntactic_scans": [{"name": x["name"], "ok": x["ok"], "detail": x["detail"][:600]} for x in scan_results],
            "source_sha": repo.sha,
            "bounded_stand_ins_not_counted_as_proved": P.get("bounded_units", []),
            "explanation": P.get("explanation", ""),
        },
        "assumptions": P["assumptions"],
        "wall_s": round(wall, 1),
        "violations": len(violations),
    }
    if driver_result and driver_result.get("evaluations"):
        # the bounded part of the check, in the exploration-style keys (never added to the proof counts)
        ev["coverage"]["evaluations"] = driver_result.get("evaluations")
        ev["coverage"]["distinct_nontrivial"] = driver_result.get("distinct")
        ev["coverage"]["rule"] = "bounded native battery (not proof): " + str(driver_result.get("rule"))
        if driver_result.get("samples"):
            ev["coverage"]["samples"] = samples + [{"native_case": x} for x in driver_result["samples"][:4]]
    json.dump(ev, open(ev_path, "w"), indent=1)

    # ------------------------------------------------------------------ report
    print("%s [%s]: %d units, %d obligations (%d by solver, %d reduced to true), %d undischarged, wall %.0fs"
          % (prop, tier, len(units), len(all_obs) + n_triv, len(all_obs), n_triv, len(failed), wall))
    slow = sorted(((ob["result"]["time"], ob["name"], ob["result"]["backend"]) for ob in all_obs if ob["result"]["status"] == "unsat"
                   and ob["result"]["time"] > 5.0), reverse=True)
    for t_, n_, b_ in slow[:8]:
        print("  slow %.1fs %s (%s)" % (t_, n_, b_))
    stages = {}
    for ob in all_obs:
        tr = ob["result"].get("tried", {})
        st_ = ob["result"].get("variant") or "none"
        stages[st_] = stages.get(st_, 0) + 1
    print("  discharge stages:", stages)
    for l in kf_lines:
        print(l)
    if engine_errors:
        for u in engine_errors:
            print("ENGINE-ERROR %s: %s" % (u["name"], u["error"]))
    if vacuous:
        for v in vacuous:
            print("ENGINE-ERROR vacuous: no exit of %s is satisfiable under its contract" % v)
    for ob in failed[:40]:
        print("  undischarged %-8s %s" % (ob["result"]["status"], ob["name"]))
    if violations:
        for cl, rp, suffix in violations:
            print("VIOLATION property=%s replay=%s obligation=%s%s" % (prop, os.path.relpath(rp, VERIF), cl, suffix)
                  if not suffix else
                  "VIOLATION property=%s replay=%s obligation=%s%s" % (prop, os.path.relpath(rp, VERIF), cl, suffix))
        return 1
    if engine_errors or vacuous:
        return 3
    if undecided:
        for cl in undecided:
            print("UNDECIDED property=%s obligation=%s" % (prop, cl))
        return 2
    if len(all_obs) + n_triv == 0 and not P.get("bounded_only"):
        print("ENGINE-ERROR zero obligations")
        return 3
    if driver_result is not None and not driver_result.get("evaluations"):
        print("ENGINE-ERROR the bounded battery was started and left no result (crash or timeout): %s" % str(driver_result.get("tail"))[-300:])
        return 3
    if P.get("bounded_only") and not (driver_result and driver_result.get("evaluations")):
        print("ENGINE-ERROR the bounded battery did not run")
        return 3
    return 0


if __name__ == "__main__":
    sys.exit(main())
