"""pyvc - verification-condition generator for a subset of Python.

Reads the real sources under $PROV_REPO (default /repo) on every run, executes the
functions named by the sidecar contracts symbolically, and emits SMT-LIB 2 queries
which are discharged by cvc5 and z3.  See /verif/DESIGN.md section 2.
"""
import os

REPO = os.environ.get("PROV_REPO", "/repo")
VERIF = os.path.dirname(os.path.dirname(os.path.abspath(__file__)))
NATIVE_PY = os.environ.get("PROV_NATIVE_PY", "/venv/bin/python")
