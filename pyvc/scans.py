"""Syntactic scans over the working tree that carry the frame side of several properties:
single-writer checks (which functions write a representation field) and the ownership/leak scan
(where an owned container escapes).  A scan result is compared with the list recorded in the contracts;
a new writer / leak is reported (it needs a contract), never silently accepted."""
import ast

from .builtins import MUTATORS


def _field_of(node):
    """X._f  ->  '_f' for attribute nodes"""
    return node.attr if isinstance(node, ast.Attribute) else None


def writers_of(repo, fields):
    """functions that write one of `fields` (attribute store, subscript store on it, mutator call on it or
    on an element of it, defaultdict read-insert is not a write of content) -> {field: {qualname: [lines]}}"""
    out = {f: {} for f in fields}

    def base_field(t):
        while isinstance(t, ast.Subscript):
            t = t.value
        return _field_of(t)

    for q, fi in repo.funcs.items():
        for n in ast.walk(fi.node):
            hits = []
            if isinstance(n, (ast.Assign, ast.AugAssign, ast.AnnAssign)):
                targets = n.targets if isinstance(n, ast.Assign) else [n.target]
                for t in targets:
                    for tt in (t.elts if isinstance(t, (ast.Tuple, ast.List)) else [t]):
                        f = base_field(tt)
                        if f in out:
                            hits.append(f)
            elif isinstance(n, ast.Delete):
                for t in n.targets:
                    f = base_field(t)
                    if f in out:
                        hits.append(f)
            elif isinstance(n, ast.Call) and isinstance(n.func, ast.Attribute) and n.func.attr in MUTATORS | {"setdefault", "popitem"}:
                f = base_field(n.func.value)
                if f in out:
                    hits.append(f)
            for f in hits:
                # nested functions are reported under their own name only
                owner = q
                out[f].setdefault(owner, []).append(n.lineno)
    # drop duplicates caused by walking nested defs from the parent
    for f in out:
        for q in list(out[f]):
            fi = repo.funcs[q]
            nested = [x for x in repo.funcs.values() if x.parent is fi]
            for nf in nested:
                lo, hi = nf.span
                out[f][q] = [l for l in out[f][q] if not (lo <= l <= hi)]
            if not out[f][q]:
                del out[f][q]
    return out


SAFE_USES = {"len", "list", "set", "tuple", "frozenset", "dict", "sorted", "bool", "iter", "enumerate", "any", "all", "str",
             # read-only builtins: they neither keep nor hand on the container itself
             "reversed", "zip", "map", "filter", "min", "max", "sum", "isinstance", "repr", "print", "next", "id", "type", "format"}
SAFE_METHODS = MUTATORS | {"items", "keys", "values", "get", "copy", "index", "count", "setdefault"}


def leaks_of(repo, fields):
    """places where an owned container field is read as a whole and escapes (returned, stored, passed on):
    -> {field: [(qualname, line, how)]}.  Reads used as subscript base, method receiver of a safe method,
    iteration source, operand of `in`/comparison/boolean test or argument of a copying builtin do not escape."""
    out = {f: [] for f in fields}
    for q, fi in repo.funcs.items():
        parents = {}
        for n in ast.walk(fi.node):
            for c in ast.iter_child_nodes(n):
                parents[c] = n
        for n in ast.walk(fi.node):
            if not (isinstance(n, ast.Attribute) and n.attr in out and isinstance(n.ctx, ast.Load)):
                continue
            # .values()/.items()/.keys() return live views: they escape if the view itself escapes
            p = parents.get(n)
            how = None
            if isinstance(p, ast.Subscript) and p.value is n:
                # element access: the element (an inner container) may escape
                pp = parents.get(p)
                if isinstance(pp, ast.Return):
                    how = "element returned"
                else:
                    continue
            elif isinstance(p, ast.Attribute) and p.value is n:
                pp = parents.get(p)
                if isinstance(pp, ast.Call) and pp.func is p and p.attr in SAFE_METHODS:
                    ppp = parents.get(pp)
                    if p.attr in ("values", "items", "keys") and isinstance(ppp, ast.Return):
                        how = "live view returned"
                    else:
                        continue
                else:
                    continue
            elif isinstance(p, ast.Call) and n in p.args and isinstance(p.func, ast.Name) and p.func.id in SAFE_USES:
                continue
            elif isinstance(p, (ast.For, ast.comprehension)) and p.iter is n:
                continue
            elif isinstance(p, ast.Compare) or isinstance(p, (ast.BoolOp, ast.UnaryOp, ast.If, ast.IfExp, ast.While)):
                continue
            elif isinstance(p, ast.Return):
                how = "returned"
            elif isinstance(p, ast.Assign) and p.value is n:
                how = "aliased by assignment"
            elif isinstance(p, ast.Call):
                how = "passed to " + ast.unparse(p.func)
            elif isinstance(p, ast.Starred) or isinstance(p, (ast.Tuple, ast.List, ast.Set, ast.Dict)):
                how = "stored in a container display"
            else:
                how = "used in " + type(p).__name__
            if how:
                out[n.attr].append((q, n.lineno, how))
    return out


FRESH_CALLS = {"dict", "list", "set", "tuple", "frozenset", "defaultdict", "OrderedDict", "sorted", "deepcopy"}


def _is_fresh_expr(repo, e):
    """an expression that evaluates to a newly created container / object (or to an immutable constant)"""
    if isinstance(e, (ast.Dict, ast.List, ast.Set, ast.Tuple, ast.ListComp, ast.SetComp, ast.DictComp, ast.Constant)):
        return True
    if isinstance(e, ast.Call):
        f = e.func
        name = f.id if isinstance(f, ast.Name) else (f.attr if isinstance(f, ast.Attribute) else None)
        if name in FRESH_CALLS:
            return True
        if isinstance(f, ast.Attribute) and f.attr == "copy" and not e.args:
            return True   # shallow copy: a new outer container (inner containers are covered by the element rule)
        if isinstance(f, ast.Name) and any(c.name == f.id for c in repo.classes.values()):
            return True   # constructor call of a class of the package
        if isinstance(f, ast.Attribute) and isinstance(f.value, ast.Name) and f.value.id in ("collections", "copy") and f.attr in FRESH_CALLS:
            return True
    if isinstance(e, ast.IfExp):
        return _is_fresh_expr(repo, e.body) and _is_fresh_expr(repo, e.orelse)
    return False


def _is_deep_fresh_expr(repo, e):
    """for a container whose elements are containers: a new EMPTY container (or a factory-initialised
    defaultdict); shallow copies (x.copy(), dict(x), list(x)) share the inner containers and do not count"""
    if isinstance(e, (ast.Dict, ast.List, ast.Set, ast.Tuple)):
        return not (getattr(e, "elts", None) or getattr(e, "keys", None))
    if isinstance(e, ast.Call):
        f = e.func
        name = f.id if isinstance(f, ast.Name) else (f.attr if isinstance(f, ast.Attribute) and not (f.attr == "copy") else None)
        if name in ("dict", "list", "set", "OrderedDict") and not e.args and not e.keywords:
            return True
        if name == "defaultdict" and len(e.args) <= 1 and all(isinstance(x, ast.Name) and x.id in ("set", "list", "dict") for x in e.args):
            return True
    return False


def stores_of(repo, fields, nested):
    """ownership discipline of container fields: (i) a store to the whole field `X._f = e` needs a fresh e;
    (ii) for fields whose elements are containers themselves (`nested`), an element store `X._f[k] = e` and the
    argument of update()/setdefault() need a fresh e.  -> {field: [(qualname, line, what)]} of the stores that
    are NOT fresh"""
    out = {f: [] for f in fields}

    def base_field(t):
        depth = 0
        while isinstance(t, ast.Subscript):
            t = t.value
            depth += 1
        return (_field_of(t), depth)

    for q, fi in repo.funcs.items():
        for n in ast.walk(fi.node):
            if isinstance(n, (ast.Assign, ast.AnnAssign)) and getattr(n, "value", None) is not None:
                targets = n.targets if isinstance(n, ast.Assign) else [n.target]
                for t in targets:
                    if isinstance(t, (ast.Tuple, ast.List)):
                        for tt in t.elts:
                            f, d = base_field(tt)
                            if f in out:
                                out[f].append((q, n.lineno, "tuple assignment to %s" % ast.unparse(tt)))
                        continue
                    f, d = base_field(t)
                    if f not in out:
                        continue
                    if d == 0 and f in nested and not _is_deep_fresh_expr(repo, n.value):
                        out[f].append((q, n.lineno, "%s = %s" % (ast.unparse(t), ast.unparse(n.value))))
                    elif d == 0 and not _is_fresh_expr(repo, n.value):
                        out[f].append((q, n.lineno, "%s = %s" % (ast.unparse(t), ast.unparse(n.value))))
                    elif d == 1 and f in nested and not _is_fresh_expr(repo, n.value):
                        out[f].append((q, n.lineno, "%s = %s" % (ast.unparse(t), ast.unparse(n.value))))
            elif isinstance(n, ast.Call) and isinstance(n.func, ast.Attribute) and n.func.attr in ("update", "setdefault"):
                f, d = base_field(n.func.value)
                if f in nested and d == 0:
                    args = n.args[1:] if n.func.attr == "setdefault" else n.args
                    for a_ in args:
                        if not _is_fresh_expr(repo, a_):
                            out[f].append((q, n.lineno, ast.unparse(n)))
    # nested defs are reported once (under the innermost function)
    for f in out:
        seen = set()
        keep = []
        for (q, l, w) in sorted(out[f], key=lambda x: -len(x[0])):
            if (l, w) in seen:
                continue
            seen.add((l, w))
            keep.append((q, l, w))
        out[f] = sorted(keep)
    return out


GENERIC_METHOD_NAMES = {"update", "add", "get", "copy", "items", "keys", "values", "append", "extend", "pop", "remove",
                        "insert", "clear", "setdefault", "index", "count", "sort", "join", "format", "split", "strip",
                        "replace", "startswith", "endswith", "lower", "upper", "encode", "decode", "write", "read", "close",
                        "seek", "getvalue", "serialize", "deserialize", "parse", "set", "find", "findall", "bind", "subgraph"}


def call_graph(repo):
    """name-based static call graph over the package (over-approximate): qualname -> set of callee qualnames.
    `x.m(...)` resolves to every method named m of the package's classes (except a list of generic container /
    string method names, which resolve only when the receiver is `self`); `f(...)` to a module-level function,
    a class (its __init__) or a nested function of that name; properties are resolved on attribute loads."""
    by_method = {}
    props = {}
    top = {}
    for q, fi in repo.funcs.items():
        if fi.cls is not None and fi.parent is None:
            if not (fi.node.name.startswith("__") and fi.node.name.endswith("__")):
                by_method.setdefault(fi.node.name, set()).add(q)
            if fi.is_property:
                props.setdefault(fi.node.name, set()).add(q)
        elif fi.parent is None:
            top.setdefault(fi.node.name, set()).add(q)
    for ci in repo.classes.values():
        for al, nm in ci.aliases.items():
            if nm in ci.methods:
                by_method.setdefault(al, set()).add(ci.methods[nm].qualname)
    g = {}
    for q, fi in repo.funcs.items():
        out = set()
        nested = {x.node.name: x.qualname for x in repo.funcs.values() if x.parent is fi}
        for n in ast.walk(fi.node):
            if isinstance(n, ast.Call):
                f = n.func
                if isinstance(f, ast.Name):
                    if f.id in nested:
                        out.add(nested[f.id])
                    out |= top.get(f.id, set())
                    if f.id in repo.classes:
                        init = repo.classes[f.id].lookup("__init__")
                        if init is not None:
                            out.add(init.qualname)
                elif isinstance(f, ast.Attribute):
                    if f.attr in GENERIC_METHOD_NAMES:
                        if isinstance(f.value, ast.Name) and f.value.id == "self" and fi.cls is not None:
                            m = fi.cls.lookup(f.attr)
                            if m is not None:
                                out.add(m.qualname)
                        continue
                    out |= by_method.get(f.attr, set())
                    out |= top.get(f.attr, set())      # module.function(...)
            elif isinstance(n, ast.Attribute) and isinstance(n.ctx, ast.Load) and n.attr in props:
                out |= props[n.attr]
        # comparison / hashing operators on model objects dispatch to __eq__/__hash__ (not followed: observers)
        g[q] = out
    return g


def reach_scan(repo, entries, forbidden, cuts):
    """functions reachable from `entries` without descending into `cuts`; -> list of (forbidden function, path)"""
    g = call_graph(repo)
    seen = {}
    stack = [(e, (e,)) for e in entries if e in g]
    missing = [e for e in entries if e not in g]
    while stack:
        q, path = stack.pop()
        if q in seen:
            continue
        seen[q] = path
        if q in cuts and q not in entries:
            continue
        for c in sorted(g.get(q, ())):
            if c not in seen:
                stack.append((c, path + (c,)))
    hits = [(q, seen[q]) for q in sorted(seen) if q in forbidden]
    return hits, missing, sorted(seen)


NONDET_CALLS = {"id", "hash", "uuid4", "uuid1", "random", "randint", "choice", "shuffle", "now", "today", "time", "urandom", "getpid"}


def nondet_scan(repo, funcs):
    out = []
    for q in funcs:
        fi = repo.funcs[q]
        for n in ast.walk(fi.node):
            if isinstance(n, ast.Call):
                f = n.func
                name = f.id if isinstance(f, ast.Name) else (f.attr if isinstance(f, ast.Attribute) else None)
                if name in NONDET_CALLS:
                    out.append((q, n.lineno, ast.unparse(n)[:80]))
    return sorted(set(out))


MUTATORS = {"append", "add", "update", "setdefault", "pop", "popitem", "clear", "extend", "insert", "remove", "discard", "__setitem__", "sort", "reverse"}
MEMO_DECORATORS = ("lru_cache", "cache", "cached_property")


def _root(e):
    """-> (root name, number of attribute/subscript steps) of an access path, or (None, 0)"""
    k = 0
    while isinstance(e, (ast.Attribute, ast.Subscript)):
        e = e.value
        k += 1
    return (e.id, k) if isinstance(e, ast.Name) else (None, 0)


def purity_scan(repo, funcs):
    """state kept across calls by the given functions (the memo-cache / hidden-state scan): -> sorted list of
    (function, text) for every
      P1 store to an attribute of an existing object: `x.a = ..`, `x.a += ..`, `del x.a` (inside __init__/__new__ the
         stores to attributes of `self` are the initialisation of a new object and are not listed);
      P2 item store/delete or call of a mutating container method (append, add, update, setdefault, pop, ...) on a
         container reached from `self.<attribute>` or from a module-level name;
      P3 `global` / `nonlocal` statement, setattr()/object.__setattr__ call;
      P4 memoising decorator (functools.lru_cache / cache / cached_property)."""
    out = []
    for q in funcs:
        fi = repo.funcs.get(q)
        if fi is None:
            continue
        modnames = set()
        for n in fi.module.tree.body:
            for t in (n.targets if isinstance(n, ast.Assign) else [n.target] if isinstance(n, (ast.AnnAssign, ast.AugAssign)) else []):
                for x in ast.walk(t):
                    if isinstance(x, ast.Name):
                        modnames.add(x.id)
        params = {a.arg for a in fi.node.args.args + fi.node.args.kwonlyargs + fi.node.args.posonlyargs}
        local = set(params)
        for n in ast.walk(fi.node):
            if isinstance(n, ast.Name) and isinstance(n.ctx, ast.Store):
                local.add(n.id)
        is_init = fi.node.name in ("__init__", "__new__")
        for d in fi.decorators:
            if any(m in d for m in MEMO_DECORATORS):
                out.append((q, "P4 @" + d))

        def shared(e):
            r, k = _root(e)
            if r is None:
                return False
            if r == "self":
                return k >= 1
            return r in modnames and r not in local

        for n in ast.walk(fi.node):
            tg = []
            if isinstance(n, ast.Assign):
                tg = list(n.targets)
            elif isinstance(n, (ast.AugAssign, ast.AnnAssign)):
                tg = [n.target]
            elif isinstance(n, ast.Delete):
                tg = list(n.targets)
            flat = []
            for t in tg:
                flat.extend(t.elts if isinstance(t, (ast.Tuple, ast.List)) else [t])
            for t in flat:
                if isinstance(t, ast.Attribute):
                    r, k = _root(t)
                    if is_init and r == "self" and k == 1:
                        continue
                    if r in local and r != "self" and r not in params and k == 1 and False:
                        continue
                    out.append((q, "P1 " + ast.unparse(n)[:90]))
                elif isinstance(t, ast.Subscript) and shared(t.value):
                    out.append((q, "P2 " + ast.unparse(n)[:90]))
            if isinstance(n, (ast.Global, ast.Nonlocal)):
                out.append((q, "P3 " + ast.unparse(n)[:90]))
            if isinstance(n, ast.Call):
                f = n.func
                if isinstance(f, ast.Name) and f.id == "setattr" or isinstance(f, ast.Attribute) and f.attr == "__setattr__":
                    out.append((q, "P3 " + ast.unparse(n)[:90]))
                if isinstance(f, ast.Attribute) and f.attr in MUTATORS and shared(f.value) and not (is_init and _root(f.value) == ("self", 1)):
                    out.append((q, "P2 " + ast.unparse(n)[:90]))
    return sorted(set(out))


def atomic_write_scan(repo, qualname="prov.model.ProvDocument.serialize"):
    """the write-to-path protocol of ProvDocument.serialize, checked on its AST (C17), independent of how the locals
    are called:  T = the name bound to the path returned by tempfile.mkstemp();  D = the parameter `destination` and
    every name assigned from a D name or unpacked from urlparse(<D name>).
    R1 the function calls tempfile.mkstemp(), os.fdopen() and shutil.move/copy(T, D);
    R2 a D name is passed only to urlparse, to read-only tests (os.path.*, hasattr, isinstance, str, len, print) and
       as the target of that final shutil.move/copy(T, D); os.remove/unlink/rename/replace only ever get T;
    R3 a D name is assigned only from another D name or by unpacking urlparse(<D name>);
    R4 the function never calls open().
    -> list of (rule, line, text) that break a rule"""
    fi = repo.funcs.get(qualname)
    if fi is None:
        return [("R0", 0, "function %s not found" % qualname)]
    # the file-name branch: the else-part of `if hasattr(destination, "write")` (the other branches handle a missing
    # destination and a stream object, where `destination` is not a file name)
    branch = None
    for n in ast.walk(fi.node):
        if isinstance(n, ast.If) and isinstance(n.test, ast.Call) and ast.unparse(n.test.func) == "hasattr" and n.orelse \
                and isinstance(n.test.args[0], ast.Name) and n.test.args[0].id == "destination":
            branch = ast.Module(body=list(n.orelse), type_ignores=[])
    if branch is None:
        return [("R0", fi.node.lineno, "the branch for file-name destinations was not recognised (if hasattr(destination, 'write'): ... else: ...)")]
    for n in ast.walk(fi.node):
        if isinstance(n, ast.Call) and ast.unparse(n.func) in ("open", "io.open", "builtins.open"):
            return [("R4", n.lineno, ast.unparse(n)[:100])] + [x for x in atomic_write_scan_branch(branch) if x[0] != "R4"]
    return atomic_write_scan_branch(branch)


def atomic_write_scan_branch(node):
    tmp, dest = set(), {"destination"}

    def is_urlparse_of_dest(v):
        return (isinstance(v, ast.Call) and ast.unparse(v.func).split(".")[-1] == "urlparse" and len(v.args) == 1
                and isinstance(v.args[0], ast.Name) and v.args[0].id in dest)

    def derived(v):
        """an expression that only selects from / renames a destination value"""
        if isinstance(v, ast.Name):
            return v.id in dest
        if is_urlparse_of_dest(v):
            return True
        if isinstance(v, (ast.Subscript, ast.Attribute)):
            return derived(v.value)
        if isinstance(v, (ast.Tuple, ast.List)) and v.elts:
            return all(derived(x) for x in v.elts)
        return False

    changed = True
    while changed:
        changed = False
        for n in ast.walk(node):
            if not isinstance(n, ast.Assign):
                continue
            v = n.value
            for t in n.targets:
                if isinstance(v, ast.Call) and ast.unparse(v.func) == "tempfile.mkstemp" and isinstance(t, (ast.Tuple, ast.List)) and len(t.elts) == 2 \
                        and isinstance(t.elts[1], ast.Name) and t.elts[1].id not in tmp:
                    tmp.add(t.elts[1].id)
                    changed = True
                names = [x.id for x in ast.walk(t) if isinstance(x, ast.Name)]
                if derived(v):
                    for nm in names:
                        if nm not in dest and not nm.startswith("_"):
                            dest.add(nm)
                            changed = True
    bad = []
    has_mkstemp = has_fdopen = has_move = False
    READ_ONLY = ("hasattr", "isinstance", "str", "len", "print", "os.fspath", "repr")
    for n in ast.walk(node):
        if isinstance(n, ast.Call):
            fn = ast.unparse(n.func)
            inner = {x.id for a in list(n.args) + [kw.value for kw in n.keywords] for x in ast.walk(a) if isinstance(x, ast.Name)}
            if fn == "tempfile.mkstemp":
                has_mkstemp = True
            if fn == "os.fdopen":
                has_fdopen = True
            if fn in ("open", "io.open", "builtins.open"):
                bad.append(("R4", n.lineno, ast.unparse(n)[:100]))
            is_final_move = (fn in ("shutil.move", "shutil.copy") and len(n.args) == 2 and isinstance(n.args[0], ast.Name) and n.args[0].id in tmp
                             and isinstance(n.args[1], ast.Name) and n.args[1].id in dest)
            if is_final_move:
                has_move = True
            if inner & dest:
                ok = is_final_move or fn.split(".")[-1] == "urlparse" or fn.startswith("os.path.") or fn in READ_ONLY
                if not ok:
                    bad.append(("R2", n.lineno, ast.unparse(n)[:100]))
            if fn in ("os.remove", "os.unlink", "os.rename", "os.replace", "shutil.rmtree") and not (
                    len(n.args) >= 1 and all(isinstance(a_, ast.Name) and a_.id in tmp for a_ in n.args[:1]) and not (inner & dest)):
                bad.append(("R2", n.lineno, ast.unparse(n)[:100]))
        if isinstance(n, ast.Assign):
            v = n.value
            for t in n.targets:
                names = [x.id for x in ast.walk(t) if isinstance(x, ast.Name)]
                if set(names) & dest and not derived(v):
                    bad.append(("R3", n.lineno, ast.unparse(n)[:100]))
    if not (has_mkstemp and has_fdopen and has_move):
        bad.append(("R1", node.body[0].lineno if node.body else 0, "mkstemp/fdopen/move protocol not found (mkstemp=%s fdopen=%s move(T, D)=%s; T=%s D=%s)" % (
            has_mkstemp, has_fdopen, has_move, sorted(tmp), sorted(dest))))
    return sorted(set(bad))


# PROV-DM / PROV-N / PROV-JSON names, written out from the specifications (not read from the library)
SPEC_KINDS = {
    "Entity": "entity", "Activity": "activity", "Agent": "agent", "Generation": "wasGeneratedBy", "Usage": "used",
    "Communication": "wasInformedBy", "Start": "wasStartedBy", "End": "wasEndedBy", "Invalidation": "wasInvalidatedBy",
    "Derivation": "wasDerivedFrom", "Attribution": "wasAttributedTo", "Association": "wasAssociatedWith",
    "Delegation": "actedOnBehalfOf", "Influence": "wasInfluencedBy", "Specialization": "specializationOf",
    "Alternate": "alternateOf", "Membership": "hadMember", "Mention": "mentionOf", "Bundle": "bundle",
}
SPEC_FORMAL = {"entity", "activity", "agent", "trigger", "starter", "ender", "informed", "informant", "generatedEntity", "usedEntity",
               "generation", "usage", "plan", "delegate", "responsible", "influencee", "influencer", "specificEntity", "generalEntity",
               "alternate1", "alternate2", "collection", "bundle", "time", "startTime", "endTime"}


def tables_scan(repo):
    """the library's name tables (dumped from the real prov.constants by CPython) against the specifications' names"""
    g = repo.consts["prov.constants"]["globals"]
    out = []
    nm = {a.get("local"): b.get("v") for a, b in g["PROV_N_MAP"]["v"]}
    ok = nm == SPEC_KINDS and all(a.get("nsuri") == "http://www.w3.org/ns/prov#" for a, b in g["PROV_N_MAP"]["v"])
    out.append(("PROV_N_MAP", ok, sorted(set(nm.items()) ^ set(SPEC_KINDS.items()), key=str)))
    def pairs(tab):
        # (local name of the qualified name, text) whichever side the qualified name is on
        out_ = set()
        ok_ns = True
        for a, b in tab:
            q, t = (a, b) if a.get("k") == "QN" else (b, a)
            out_.add((q.get("local"), t.get("v")))
            ok_ns = ok_ns and q.get("nsuri") == "http://www.w3.org/ns/prov#"
        return out_, ok_ns
    want = {(x, "prov:" + x) for x in SPEC_FORMAL}
    for tname in ("PROV_ATTRIBUTES_ID_MAP", "PROV_ID_ATTRIBUTES_MAP"):
        got, ok_ns = pairs(g[tname]["v"])
        out.append((tname, got == want and ok_ns, sorted(got ^ want, key=str)))
    got, ok_ns = pairs(g["PROV_RECORD_IDS_MAP"]["v"])
    out.append(("PROV_RECORD_IDS_MAP", got == set(SPEC_KINDS.items()) and ok_ns, sorted(got ^ set(SPEC_KINDS.items()), key=str)))
    return out


def run_scans(repo, spec):
    """spec = {"writers": {field: [allowed qualnames]}, "leaks": {field: [[qualname, how-prefix], ...]}}
    -> list of dict(name, ok, detail)"""
    res = []
    w = writers_of(repo, list(spec.get("writers", {})))
    for f, allowed in spec.get("writers", {}).items():
        found = sorted(w[f])
        extra = [q for q in found if q not in allowed]
        res.append({"name": "scan:single-writer:%s" % f, "ok": not extra, "found": found,
                    "detail": "functions writing %s: %s%s" % (f, ", ".join(found), ("; NOT under contract for it: " + ", ".join(extra)) if extra else "")})
    lk = leaks_of(repo, list(spec.get("leaks", {})))
    for f, allowed in spec.get("leaks", {}).items():
        extra = [(q, l, h) for (q, l, h) in lk[f] if not any(q == a[0] and h.startswith(a[1]) for a in allowed)]
        res.append({"name": "scan:no-leak:%s" % f, "ok": not extra, "found": lk[f],
                    "detail": "escapes of %s: %s%s" % (f, lk[f], ("; NOT among the recorded ones: %s" % extra) if extra else "")})
    if spec.get("export_frame"):
        ef = spec["export_frame"]
        forbidden = set(ef.get("forbidden", [])) | {q for q in repo.funcs if q.split(".")[-1] in set(ef.get("forbidden_names", []))}
        hits, missing, reached = reach_scan(repo, ef["entries"], forbidden, set(ef.get("cuts", [])))
        allowed = {tuple(a) for a in ef.get("allowed", [])}
        extra = [(q, " -> ".join(pth)) for q, pth in hits if (pth[0], q) not in allowed]
        res.append({"name": "scan:export-frame", "ok": not extra and not missing, "found": [q for q, _ in hits],
                    "detail": "%d functions reachable from %d export entry points; state-changing functions among them: %s%s%s" % (
                        len(reached), len(ef["entries"]), [q for q, _ in hits],
                        ("; NOT among the recorded ones: %s" % extra) if extra else "",
                        ("; entry points missing from the tree: %s" % missing) if missing else "")})
        nd = nondet_scan(repo, [q for q in reached if q in repo.funcs])
        allowed_nd = {tuple(a) for a in ef.get("allowed_nondeterminism", [])}
        extra_nd = [x for x in nd if (x[0], x[2]) not in allowed_nd]
        res.append({"name": "scan:export-determinism", "ok": not extra_nd, "found": nd,
                    "detail": "calls of id/hash/random/time/uuid in export-reachable code: %s%s" % (nd, ("; NOT among the recorded ones: %s" % extra_nd) if extra_nd else "")})
    if spec.get("export_purity"):
        ep = spec["export_purity"]
        hits, missing, reached = reach_scan(repo, ep["entries"], set(), set(ep.get("cuts", [])))
        found = purity_scan(repo, [q for q in reached if q not in set(ep.get("cuts", []))])
        allowed = {tuple(a) for a in ep.get("allowed", [])}
        extra = [x for x in found if x not in allowed]
        res.append({"name": "scan:export-purity", "ok": not extra and not missing, "found": found,
                    "detail": "%d functions reachable from %d entry points; stores to existing objects, to containers reached from self or from module level, global statements and memoising decorators among them: %s%s%s" % (
                        len(reached), len(ep["entries"]), found, ("; NOT among the recorded ones: %s" % extra) if extra else "",
                        ("; entry points missing from the tree: %s" % missing) if missing else "")})
    if spec.get("atomic_write"):
        bad = atomic_write_scan(repo)
        res.append({"name": "scan:atomic-write", "ok": not bad, "found": bad,
                    "detail": "ProvDocument.serialize: serializer output goes to a mkstemp() file, the destination is touched only by the final shutil.move/copy, path is the given file name%s" % (
                        "; BROKEN: %s" % bad if bad else "")})
    if spec.get("spec_tables"):
        if repo.consts is None:
            repo._dump_consts()
        for name, ok, diff in tables_scan(repo):
            res.append({"name": "scan:spec-tables:%s" % name, "ok": ok, "found": diff,
                        "detail": "%s of prov.constants %s the names of PROV-DM / PROV-N / PROV-JSON%s" % (name, "equals" if ok else "differs from", ("; differences: %s" % diff) if diff else "")})
    if spec.get("fresh_stores"):
        fs = spec["fresh_stores"]
        st = stores_of(repo, fs["fields"], set(fs.get("nested", [])))
        for f in fs["fields"]:
            allowed = fs.get("allowed", {}).get(f, [])
            extra = [(q, l, w) for (q, l, w) in st[f] if not any(q == a[0] and w == a[1] for a in allowed)]
            res.append({"name": "scan:fresh-store:%s" % f, "ok": not extra, "found": st[f],
                        "detail": "stores to %s that do not create a new container: %s%s" % (f, st[f], ("; NOT among the recorded ones: %s" % extra) if extra else "")})
    return res


if __name__ == "__main__":
    from .load import Repo
    r = Repo(with_consts=False)
    print(writers_of(r, ["_attributes", "_records", "_id_map", "_bundles", "_namespaces"]))
    for f, v in leaks_of(r, ["_attributes", "_records", "_id_map", "_bundles", "_namespaces", "_uri_map"]).items():
        print(f, v)
    print(stores_of(r, ["_attributes", "_records", "_id_map", "_bundles", "_namespaces", "_uri_map", "_rename_map", "_prefix_renamed_map"], {"_attributes", "_id_map"}))
