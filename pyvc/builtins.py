"""Models of Python builtins, container/str methods and the specification vocabulary (DESIGN C.2)."""
import ast
import re

from . import ty as T
from .core import SV, PyV, ExcVal, State, Unsupported
from .smt import AND, OR, NOT, ITE, EQ, IMPLIES, slit, ilit

MUTATORS = {"add", "append", "extend", "remove", "update", "pop", "sort", "clear", "discard", "insert"}


def unslit(t):
    """SMT string literal -> python str (None if t is not a literal)"""
    if len(t) >= 2 and t[0] == '"' and t[-1] == '"':
        body = t[1:-1]
        # reject concatenations etc.: a literal has only doubled quotes inside
        if re.search(r'(?<!")"(?!")', body.replace('""', "")):
            return None
        body = body.replace('""', '"')
        return re.sub(r"\\u\{([0-9a-fA-F]+)\}", lambda m: chr(int(m.group(1), 16)), body)
    return None


class Builtins:
    def __init__(self, ex):
        self.ex = ex
        self.cx = ex.cx

    # ------------------------------------------------------------ modules
    def module_attr(self, mod, attr, node):
        q = mod + "." + attr
        if q in ("datetime.datetime",):
            return PyV("extclass", "datetime.datetime")
        if q in ("dateutil.parser", "os.path", "urllib.parse"):
            return PyV("module", q)
        r = self.ex.repo.modules.get(mod)
        if r is not None:
            g = self.ex.repo.global_lookup(mod, attr)
            if g is not None:
                kind, data = g
                if kind == "const":
                    return self.ex.const(data)
                if kind in ("func", "class"):
                    return PyV(kind, data)
        if q in self.ex.repo.modules:
            return PyV("module", q)
        return PyV("extfunc", q)

    # ------------------------------------------------------------ % formatting
    def percent_format(self, fmt, arg, st, k, ctl, node):
        f = unslit(fmt.t)
        if f is None:
            raise Unsupported("% with non-constant format", node)
        if isinstance(arg, PyV) and arg.kind == "tuple" and arg.extra != "list":
            args = list(arg.data)
        else:
            args = [arg]
        return k(st, SV(self.format_percent(f, args, node), T.STR))

    def format_percent(self, f, args, node):
        parts = []
        i = 0
        ai = 0
        buf = ""
        while i < len(f):
            ch = f[i]
            if ch != "%":
                buf += ch
                i += 1
                continue
            spec = f[i + 1]
            i += 2
            if spec == "%":
                buf += "%"
                continue
            if buf:
                parts.append(slit(buf))
                buf = ""
            a = args[ai]
            ai += 1
            if spec == "s":
                parts.append(self.ex.py_str(a))
            elif spec in "di":
                if a.ty == T.INT:
                    self.ex.need_fun("py_str")
                    parts.append("(int_str %s)" % a.t)
                elif a.ty == T.BOOL:
                    parts.append(ITE(a.t, '"1"', '"0"'))
                else:
                    raise Unsupported("%%%s of %r" % (spec, a.ty), node)
            elif spec == "g":
                if "flt_g" not in self.cx.funs_known:
                    self.cx.funs_known.add("flt_g")
                    self.cx.funs.append("(declare-fun flt_g (Flt) String)")
                parts.append("(flt_g %s)" % self.ex.coerce(a, T.FLT).t)
            else:
                raise Unsupported("format spec %%%s" % spec, node)
        if buf:
            parts.append(slit(buf))
        if ai != len(args):
            raise Unsupported("format arity", node)
        return self.ex.concat(parts)

    # ------------------------------------------------------------ slicing
    def slice(self, o, sl, st, k, ctl, node):
        if sl.step is not None:
            raise Unsupported("slice step", node)

        def got(s, vs):
            lo, hi = vs
            if isinstance(o, PyV) and o.kind == "tuple":
                l = _intlit(lo) if lo is not None else None
                h = _intlit(hi) if hi is not None else None
                return k(s, PyV("tuple", o.data[l:h], o.extra))
            if isinstance(o, SV) and o.ty == T.STR:
                lo_t = lo.t if lo is not None else "0"
                if hi is None:
                    ln = "(- (str.len %s) %s)" % (o.t, lo_t)
                else:
                    ln = "(- %s %s)" % (hi.t, lo_t)
                return k(s, SV("(str.substr %s %s %s)" % (o.t, lo_t, ln), T.STR))
            if isinstance(o, SV) and o.ty.kind == "seq":
                lo_t = lo.t if lo is not None else "0"
                if hi is None:
                    ln = "(- (seq.len %s) %s)" % (o.t, lo_t)
                else:
                    ln = "(- %s %s)" % (hi.t, lo_t)
                return k(s, SV("(seq.extract %s %s %s)" % (o.t, lo_t, ln), o.ty))
            raise Unsupported("slice of %r" % (o,), node)

        def ev_opt(e, s, kk):
            if e is None:
                return kk(s, None)
            return self.ex.ev(e, s, kk, ctl)

        return ev_opt(sl.lower, st, lambda s, lo: ev_opt(sl.upper, s, lambda s2, hi: got(s2, (lo, hi))))

    # ------------------------------------------------------------ constant tables
    def table_lookup(self, tab, key, st, k, ctl, node):
        ex = self.ex
        line = getattr(node, "lineno", "?")
        has = OR(*[ex.py_eq(key, kk, st) for kk, _ in tab.data])
        if not st.spec:
            self.cx.oblige("key-present@%s" % line, st, has, {"kind": "safety", "expr": ast.unparse(node)})
            st = st.assume(has)
        vals = [v for _, v in tab.data]
        if all(isinstance(v, SV) for v in vals) and len({v.ty for v in vals}) == 1:
            t = vals[-1].t
            for kk, v in reversed(tab.data[:-1]):
                t = ITE(ex.py_eq(key, kk, st), v.t, t)
            return k(st, SV(t, vals[0].ty))
        # python-level values (classes, functions): fork per entry
        if st.spec:
            raise Unsupported("table of python-level values in specification", node)
        if all(isinstance(v, PyV) and v.kind == "class" for v in vals):
            # a table of record classes: one fork per constructor (classes sharing an __init__ are handled
            # together, the dynamic class stays tied to the key)
            groups = {}
            for kk, v in tab.data:
                init = v.data.lookup("__init__")
                groups.setdefault(init.qualname if init else None, []).append((ex.py_eq(key, kk, st), v.data))
            for gname, items in groups.items():
                c = OR(*[c_ for c_, _ in items])
                if ex.feasible(st, c):
                    k(st.assume(c).step("t"), PyV("classchoice", items))
            return None
        for kk, v in tab.data:
            c = ex.py_eq(key, kk, st)
            if ex.feasible(st, c):
                k(st.assume(c).step("t"), v)
        return None

    # ------------------------------------------------------------ unpack / lower
    def unpack(self, v, n, st, node):
        if isinstance(v, PyV) and v.kind == "tuple":
            if len(v.data) != n:
                return None
            return list(v.data)
        if isinstance(v, SV) and v.ty.kind == "tuple":
            name = self.cx.sorts.sort(v.ty)
            return [SV("(%s_%d %s)" % (name, i, v.t), t) for i, t in enumerate(v.ty.args)]
        raise Unsupported("unpack of %r" % (v,), node)

    def lower(self, v, ty, st, what=""):
        """python-level constant container -> SMT value of type ty"""
        ex = self.ex
        S = self.cx.sorts
        if isinstance(v, SV):
            return ex.coerce(v, ty, what)
        if ty.kind == "opt":
            return ex.coerce(self.lower(v, ty.args[0], st, what), ty, what)
        if v.kind == "cdict" and ty == T.JREP:
            S.sort(T.JREP)
            d = {}
            for a, b in v.data:
                if not (isinstance(a, SV) and a.ty == T.STR and a.t.startswith('"')):
                    raise Unsupported("JSON object with a non-constant key %s" % what)
                d[a.t.strip('"')] = b
            if "$" not in d or set(d) - {"$", "type", "lang"}:
                raise Unsupported("JSON object with keys %r %s" % (sorted(d), what))
            dollar = ex.box(d["$"]) if isinstance(d["$"], SV) else ex.box(self.lower(d["$"], T.VAL, st, what))
            ty_ = ex.coerce(d["type"], T.Opt(T.STR), what).t if "type" in d else S.none(T.STR)
            lg_ = ex.coerce(d["lang"], T.Opt(T.STR), what).t if "lang" in d else S.none(T.STR)
            return SV("(JObj %s %s %s)" % (dollar.t, ty_, lg_), T.JREP)
        if v.kind in ("cset", "tuple") and ty.kind == "vset":
            t = SV("vs_empty", T.VSET)
            for x in v.data:
                t = ex.vset_add(t, x)
            return t
        if v.kind == "cdict" and ty.kind == "qmap":
            vv = ty.args[0]
            mk, tab, keyf = T.qm_names(vv)
            S.sort(ty)
            empty_tab = "((as const (Array String %s)) %s)" % (
                S.sort(vv) if T.total_map_value(vv) else S.sort(T.Opt(vv)),
                ("(mkVSet ((as const (Array Val Bool)) false) ((as const (Array Val Val)) VNone) 0)" if vv.kind == "vset" else "(as seq.empty %s)" % S.sort(vv)) if T.total_map_value(vv) else S.none(vv))
            t = SV("(%s %s ((as const (Array String QN)) (mkQN (mkNs \"\" \"\") \"\")))" % (mk, empty_tab), ty)
            for a, b in v.data:
                t = ex.map_put(t, a, b)
            return t
        if v.kind in ("cset", "tuple") and ty.kind == "set":
            t = S.empty_set(ty.args[0])
            for x in v.data:
                t = "(store %s %s true)" % (t, ex.key_term(x, ty.args[0]))
            return SV(t, ty)
        if v.kind == "cdict" and ty.kind == "seq" and ty.args[0].kind == "tuple":
            v = PyV("tuple", [PyV("tuple", [a, b]) for a, b in v.data], "list")
        if v.kind == "tuple" and ty.kind == "seq":
            et = ty.args[0]
            if not v.data:
                return SV("(as seq.empty %s)" % S.sort(ty), ty)
            units = ["(seq.unit %s)" % self.lower(x, et, st, what).t for x in v.data]
            return SV(units[0] if len(units) == 1 else "(seq.++ %s)" % " ".join(units), ty)
        if v.kind == "tuple" and ty.kind == "tuple":
            name = S.sort(ty)
            items = [(self.lower(x, t, st, what) if isinstance(x, PyV) else ex.coerce(x, t, what)).t for x, t in zip(v.data, ty.args)]
            return SV("(mk_%s %s)" % (name, " ".join(items)), ty)
        if v.kind == "cdict" and ty.kind == "map":
            kk, vv = ty.args
            t = S.empty_map(kk, vv)
            for a, b in v.data:
                t = ex.map_put(SV(t, ty), a, self.lower(b, vv, st, what) if isinstance(b, PyV) else b).t
            return SV(t, ty)
        raise Unsupported("cannot lower %r to %r %s" % (v, ty, what))

    # ------------------------------------------------------------ comprehension
    def comprehension(self, e, st, k, ctl):
        ex = self.ex
        if len(e.generators) == 1 and not e.generators[0].ifs:
            g = e.generators[0]

            def got(s, it):
                if isinstance(it, PyV) and it.kind == "dynattr" and not s.spec:
                    # class-level constant depending on the dynamic class: one case per class
                    o, attr, vals = it.data
                    for cname, enc in sorted(vals.items()):
                        c_ = ex.cls_exact(o.t, cname)
                        if ex.feasible(s, c_):
                            got(s.assume(c_).step("<%s>" % cname), ex.const(enc))
                    return None
                if isinstance(it, PyV) and it.kind in ("tuple", "cset"):
                    items = it.data
                elif isinstance(it, PyV) and it.kind == "cdictitems":
                    items = [PyV("tuple", [a, b]) for a, b in it.data]
                else:
                    return self.symbolic_comprehension(e, s, k, ctl)
                out = []

                def go(i, s2):
                    if i == len(items):
                        return k(s2.copy(env=s.env), PyV("tuple", list(out), "list"))
                    def body(s3):
                        return ex.ev(e.elt, s3, lambda s4, v: (out.append(v), go(i + 1, s4), out.pop())[1], ctl)
                    return ex.assign(g.target, items[i], s2, body, ctl)
                return go(0, s)

            return ex.ev(g.iter, st, got, ctl)
        return self.symbolic_comprehension(e, st, k, ctl)

    def member_binding(self, it, node):
        """an arbitrary member of a symbolic iterable: (binders, condition, value)"""
        ex, cx, S = self.ex, self.cx, self.cx.sorts
        u = next(cx.counter)
        if isinstance(it, SV) and it.ty.kind == "qmap":
            it = PyV("mapkeys", it)
        if isinstance(it, PyV) and it.kind in ("mapitems", "mapkeys", "mapvalues") and it.data.ty.kind == "qmap":
            m = it.data
            vv = m.ty.args[0]
            mk, tab, keyf = T.qm_names(vv)
            uv = "cu_%d" % u
            cell = "(select (%s %s) %s)" % (tab, m.t, uv)
            key = SV("(select (%s %s) %s)" % (keyf, m.t, uv), T.QN)
            val = SV(cell if T.total_map_value(vv) else S.the(vv, cell), vv)
            v = key if it.kind == "mapkeys" else val if it.kind == "mapvalues" else PyV("tuple", [key, val])
            return [(uv, "String")], ex.cell_present(cell, vv), v
        if isinstance(it, SV) and it.ty.kind == "vset":
            cv = "cc_%d" % u
            return [(cv, "Val")], "(select (vs_has %s) %s)" % (it.t, cv), SV("(select (vs_rep %s) %s)" % (it.t, cv), T.VAL)
        if isinstance(it, SV) and it.ty.kind == "seq":
            iv = "ci_%d" % u
            return [(iv, "Int")], "(and (<= 0 %s) (< %s (seq.len %s)))" % (iv, iv, it.t), SV("(seq.nth %s %s)" % (it.t, iv), it.ty.args[0])
        if isinstance(it, PyV) and it.kind in ("mapitems", "mapkeys", "mapvalues"):
            m = it.data
            kk, vv = m.ty.args
            kv = "ck_%d" % u
            key = SV(kv, kk)
            val = ex.map_get(m, key)
            v = key if it.kind == "mapkeys" else val if it.kind == "mapvalues" else PyV("tuple", [key, val])
            return [(kv, S.sort(kk))], ex.map_has(m, key), v
        raise Unsupported("comprehension over %r" % (it,), node)

    def symbolic_comprehension(self, e, st, k, ctl):
        """[elt for x in it1 for y in it2(x) if c]  ->  an abstract list characterised by membership:
        forall z. z in result  <=>  exists x, y. x in it1 /\ y in it2(x) /\ c /\ z == elt
        (order and multiplicity are not determined; consumers that need them leave the subset)."""
        ex, cx, S = self.ex, self.cx, self.cx.sorts
        binders, conds = [], []
        s = st.copy(spec=True)
        env0 = st.env
        for g in e.generators:
            it = ex.spec_eval(g.iter, s)
            b, c, v = self.member_binding(it, e)
            binders += b
            conds.append(c)
            box = []
            ex.assign(g.target, v, s, lambda s2: box.append(s2), None)
            s = box[0]
            for cond in g.ifs:
                conds.append(ex.spec_bool(cond, s))
        elt = ex.spec_eval(e.elt, s)
        if isinstance(elt, PyV) and elt.kind == "tuple":
            ety = T.Tup(*[x.ty for x in elt.data])
            hint = getattr(getattr(ex, "current_contract", None), "comp_elt", None)
            if hint is not None and st.fn is not None and ex.repo.func(ex.current_contract.target.split('#')[0]) is st.fn:
                ety = hint
            elt = self.lower(elt, ety, st)
        ety = elt.ty
        r = cx.fresh("comp", T.Seq(ety))
        es = S.sort(ety)
        z = "cz_%d" % next(cx.counter)
        bs = " ".join("(%s %s)" % b for b in binders)
        body = AND(*conds)
        ax1 = "(forall ((%s %s)) (=> (seq.contains %s (seq.unit %s)) (exists (%s) (and %s (= %s %s)))))" % (z, es, r.t, z, bs, body, z, elt.t)
        ax2 = "(forall (%s) (=> %s (seq.contains %s (seq.unit %s))))" % (bs, body, r.t, elt.t)
        out = st.assume(ax1, ax2)
        return k(out, r)

    def canon_pair_set(self, seq, st):
        """set(list of (name, value) pairs): a python set, i.e. the pairs modulo ==/hash - represented by
        the set of canonical pairs (URI of the name, ck of the value): canonset(list)"""
        cx, S = self.cx, self.cx.sorts
        pt = T.Tup(T.STR, T.VAL)
        pn = S.sort(pt)
        tn = S.sort(T.Tup(T.VAL, T.VAL))
        self.ex.need_canon_in()
        if "canonset" not in cx.funs_known:
            cx.funs_known.add("canonset")
            cx.funs.append("(declare-fun canonset ((Seq %s)) (Array %s Bool))" % (tn, pn))
            cx.funs.append("(assert (forall ((l (Seq %s)) (p %s)) (= (select (canonset l) p) (canon_in l (%s_0 p) (%s_1 p)))))"
                           % (tn, pn, pn, pn))
        return st, SV("(canonset %s)" % seq.t, T.SetT(pt))

    def star_call(self, e, st, k, ctl):
        """f(a, b, **kw) where kw is the verified function's own opaque **kw: the call is evaluated without them
        (callee contracts are stated without the extra keyword arguments)"""
        ex = self.ex
        if any(isinstance(a, ast.Starred) for a in e.args):
            raise Unsupported("*args call", e)
        for kw in e.keywords:
            if kw.arg is None:
                v = st.env.get(kw.value.id) if isinstance(kw.value, ast.Name) else None
                if not (isinstance(v, PyV) and v.kind == "kwargs"):
                    raise Unsupported("**x call where x is not the function's own **kw", e)
        e2 = ast.Call(func=e.func, args=list(e.args), keywords=[kw for kw in e.keywords if kw.arg is not None])
        ast.copy_location(e2, e)
        return ex.ev_Call(e2, st, k, ctl)

    # ------------------------------------------------------------ builtins
    def builtin(self, name, args, kwargs, st, k, ctl, node):
        ex = self.ex
        S = self.cx.sorts
        if name == "isinstance" and isinstance(args[1], SV) and args[1].ty == T.CLS:
            return k(st, SV(ex.isinstance_sym(args[0], args[1]), T.BOOL))
        if name == "filter":
            f, seq = args
            # filter(lambda rec: isinstance(rec, C), records): the order-preserving class filter
            if (isinstance(f, PyV) and f.kind == "lambda" and isinstance(seq, SV) and seq.ty.kind == "seq"
                    and isinstance(f.data.body, ast.Call) and getattr(f.data.body.func, "id", None) == "isinstance"
                    and isinstance(f.data.body.args[0], ast.Name) and f.data.body.args[0].id == f.data.args.args[0].arg
                    and isinstance(f.data.body.args[1], ast.Name)):
                cv = f.extra.get(f.data.body.args[1].id)
                if isinstance(cv, SV) and cv.ty == T.CLS:
                    ex.need_filters()
                    return k(st, SV("(filtcls %s %s)" % (seq.t, cv.t), seq.ty))
            raise Unsupported("filter() shape", node)
        if name == "isinstance":
            names = ex.class_names(args[1])
            t, _ = ex.isinstance_term(args[0], names)
            return k(st, SV(t, T.BOOL))
        if name == "str":
            if not args:
                return k(st, SV('""', T.STR))
            a = args[0]
            if isinstance(a, SV) and a.ty.kind == "ref":
                ci = ex.repo.classes.get(a.ty.args[0])
                fi = ci.lookup("__str__") if ci else None
                if fi is not None:
                    return ex.call_func(fi, [a], {}, st, k, ctl, node)
            if isinstance(a, SV) and a.ty.kind in ("QN", "Ident", "Lit"):
                self.cx.deps.add("strmodel:%s.__str__" % ex.VALUE_CLASS_OF[a.ty.kind])
            return k(st, SV(ex.py_str(a), T.STR))
        if name == "len":
            a = args[0]
            if isinstance(a, PyV) and a.kind in ("tuple", "cset", "cdict"):
                return k(st, SV(ilit(len(a.data)), T.INT))
            if isinstance(a, SV) and a.ty == T.STR:
                return k(st, SV("(str.len %s)" % a.t, T.INT))
            if isinstance(a, SV) and a.ty.kind == "seq":
                return k(st, SV("(seq.len %s)" % a.t, T.INT))
            if isinstance(a, SV) and a.ty.kind == "vset":
                return k(st, SV("(vs_n %s)" % a.t, T.INT))
            if isinstance(a, SV) and a.ty.kind == "oset":
                return k(st, SV("(os_n %s)" % a.t, T.INT))
            if isinstance(a, SV) and a.ty.kind == "qmap":
                return k(st, SV(self.qmap_card(a), T.INT))
            if isinstance(a, SV) and a.ty.kind in ("set", "map"):
                return k(st, SV(self.card(a), T.INT))
            raise Unsupported("len of %r" % (a,), node)
        if name == "hash":
            return k(st, SV(self.hash_of(args[0], st, node), T.INT))
        if name == "bool":
            return k(st, SV(ex.truthy(args[0], st), T.BOOL))
        if name in ("list", "tuple"):
            if not args:
                return k(st, PyV("tuple", [], "list" if name == "list" else None))
            a = args[0]
            if isinstance(a, PyV) and a.kind in ("tuple",):
                return k(st, PyV("tuple", list(a.data), "list" if name == "list" else None))
            if isinstance(a, SV) and a.ty.kind == "seq":
                return k(st, a)  # value semantics: a copy is the same value
            raise Unsupported("%s() of %r" % (name, a), node)
        if name == "dict":
            if not args:
                return k(st, PyV("cdict", []))
            raise Unsupported("dict(x)", node)
        if name in ("set", "frozenset"):
            if not args:
                return k(st, PyV("cset", []))
            a = args[0]
            if isinstance(a, PyV) and a.kind in ("tuple", "cset"):
                return k(st, PyV("cset", list(a.data)))
            if isinstance(a, SV) and a.ty.kind == "set":
                return k(st, a)
            if isinstance(a, SV) and a.ty == T.Seq(T.Tup(T.VAL, T.VAL)):
                return k(*self.canon_pair_set(a, st))
            if isinstance(a, SV) and a.ty.kind == "seq" and a.ty.args[0].kind == "ref":
                # set of record objects: membership by ProvRecord.__hash__/__eq__, i.e. by the record key
                self.cx.deps.add("eqmodel:ProvRecord.__eq__/__hash__")
                return k(st, ex.oset_of_seq(a, st))
            if isinstance(a, PyV) and a.kind == "mapvalues" and a.data.ty.kind == "map" and a.data.ty.args[1] == T.NS:
                # set(d.values()) of namespaces: modelled as a list of its members in some order (the members
                # are what matters; Namespace.__eq__/__hash__ are structural)
                m = a.data
                kk, vv = m.ty.args
                r = self.cx.fresh("nsset", T.Seq(vv))
                ks, es = S.sort(kk), S.sort(vv)
                ax1 = "(forall ((x %s)) (=> (seq.contains %s (seq.unit x)) (exists ((k %s)) (= (select %s k) %s))))" % (es, r.t, ks, m.t, S.some(vv, "x"))
                ax2 = "(forall ((k %s)) (=> (not (= (select %s k) %s)) (seq.contains %s (seq.unit %s))))" % (ks, m.t, S.none(vv), r.t, S.the(vv, "(select %s k)" % m.t))
                return k(st.assume(ax1, ax2), r)
            if isinstance(a, PyV) and a.kind == "mapvalues":
                m = a.data
                kk, vv = m.ty.args
                es, ks = S.sort(vv), S.sort(kk)
                return k(st, SV("(lambda ((e %s)) (exists ((k %s)) (= (select %s k) %s)))"
                                % (es, ks, m.t, S.some(vv, "e")), T.SetT(vv)))
            raise Unsupported("set() of %r" % (a,), node)
        if name == "iter":
            return k(st, PyV("iter", args[0]))
        if name == "next":
            it = args[0]
            if isinstance(it, PyV) and it.kind == "iter" and isinstance(it.data, SV) and it.data.ty.kind == "vset" and len(args) == 2:
                s_ = it.data
                d = ex.box(args[1])
                # the first element in iteration order: some fixed member (choice function vs_firstkey)
                self.cx.axioms.append("(=> (not (= (vs_has %s) ((as const (Array Val Bool)) false))) (select (vs_has %s) (vs_firstkey %s)))" % (s_.t, s_.t, s_.t))
                self.cx.axioms.append("(=> (and (vs_wf %s) (> (vs_n %s) 0)) (select (vs_has %s) (vs_firstkey %s)))" % (s_.t, s_.t, s_.t, s_.t))
                term = ITE("(= (vs_n %s) 0)" % s_.t, d.t, "(select (vs_rep %s) (vs_firstkey %s))" % (s_.t, s_.t))
                st2, nm = ex.name_term(st, term, "Val", "first")
                return k(st2, SV(nm, T.VAL))
            raise Unsupported("next() on %r" % (it,), node)
        if name == "type":
            return k(st, PyV("typeof", args[0]))
        if name == "super":
            if args:
                ci = args[0].data
                return k(st, PyV("super", (ci, args[1])))
            raise Unsupported("zero-argument super()", node)
        if name == "print":
            return k(st, SV("none", T.NONE))
        if name == "hasattr":
            return k(st, SV(self.hasattr(args[0], unslit(args[1].t), node), T.BOOL))
        if name == "open":
            # the builtin open(): assumed contract ext:open (a stream on the named file of the ghost file system)
            return self.external("open", list(args), kwargs, st, k, ctl, node)
        if name in ("int", "float") and isinstance(args[0], SV) and args[0].ty == T.STR:
            # int(text)/float(text): a value for a valid lexical form, ValueError otherwise.  The parsers are
            # uninterpreted (py_int/py_float with validity predicates); A3 relates them to str()/repr().
            a = args[0]
            fn, okf, rt = ("py_int", "py_int_ok", T.INT) if name == "int" else ("py_float", "py_float_ok", T.FLT)
            for f_, rs in ((fn, S.sort(rt)), (okf, "Bool")):
                if f_ not in self.cx.funs_known:
                    self.cx.funs_known.add(f_)
                    self.cx.funs.append("(declare-fun %s (String) %s)" % (f_, rs))
            ok = "(%s %s)" % (okf, a.t)
            if ex.feasible(st, NOT(ok)):
                ctl.exc(st.assume(NOT(ok)).step("xV"), ExcVal("ValueError", node=node))
            return k(st.assume(ok), SV("(%s %s)" % (fn, a.t), rt))
        if name == "int":
            a = args[0]
            if a.ty == T.BOOL:
                return k(st, SV("(int_of_bool %s)" % a.t, T.INT))
            if a.ty == T.INT:
                return k(st, a)
        raise Unsupported("builtin %s" % name, node)

    def qmap_card(self, m):
        """len(dict): the number of keys; sizes of finite key sets obey pigeonhole (instances are added for
        every pair of dicts whose lengths are taken in the same unit)"""
        cx, ex = self.cx, self.ex
        vv = m.ty.args[0]
        mk, tab, keyf = T.qm_names(vv)
        n = cx.fresh("dlen", T.INT)
        pres = lambda t, u: ex.cell_present("(select (%s %s) %s)" % (tab, t, u), vv)
        cx.axioms.append("(>= %s 0)" % n.t)
        reg = cx.__dict__.setdefault("_qcards", [])
        for (m2, tab2, vv2, n2) in reg:
            p2 = lambda t, u: ex.cell_present("(select (%s %s) %s)" % (tab2, t, u), vv2)
            for (a, pa, na, b, pb, nb) in ((m.t, pres, n.t, m2, p2, n2), (m2, p2, n2, m.t, pres, n.t)):
                cx.axioms.append("(=> (and (= %s %s) (forall ((u String)) (=> %s %s))) (forall ((u String)) (=> %s %s)))" % (
                    na, nb, pa(a, "u"), pb(b, "u"), pb(b, "u"), pa(a, "u")))
            cx.axioms.append("(=> (forall ((u String)) (= %s %s)) (= %s %s))" % (pres(m.t, "u"), p2(m2, "u"), n.t, n2))
        reg.append((m.t, tab, vv, n.t))
        cx.notes.append("trusted: pigeonhole instance for the key sets of dicts whose len() is compared")
        return n.t

    def hasattr(self, o, name, node):
        if isinstance(o, PyV) and o.kind == "module" and (o.data, name) in (("shutil", "move"), ("shutil", "copy"), ("os", "remove")):
            return "true"          # standard-library functions that exist in every supported Python
        if isinstance(o, SV):
            k = o.ty.kind
            if k == "ref":
                ci = self.ex.repo.classes.get(o.ty.args[0])
                if ci and (ci.lookup(name) or self.ex.field_decl(ci.name, name)):
                    return "true"
                return "false"
            if k in self.ex.VALUE_CLASS_OF:
                ci = self.ex.repo.classes[self.ex.VALUE_CLASS_OF[k]]
                return "true" if ci.lookup(name) else "false"
            if k in ("str", "int", "bool", "Flt", "DT", "none"):
                return "false" if name in ("items", "write", "read", "value", "uri") else _unk(name, node)
            if k == "handle" and name in ("read", "write"):
                return "true"          # a Handle is an open stream object (text or binary)
            if k == "Val" and name == "value":
                return "((_ is VLit) %s)" % o.t
        raise Unsupported("hasattr(%r, %s)" % (o, name), node)

    def card(self, a):
        fn = "card_" + T.mangle(a.ty)
        if fn not in self.cx.funs_known:
            self.cx.funs_known.add(fn)
            self.cx.funs.append("(declare-fun %s (%s) Int)" % (fn, self.cx.sorts.sort(a.ty)))
        return "(%s %s)" % (fn, a.t)

    def hash_of(self, v, st, node):
        """hash(): hash_str is uninterpreted; the hashes of library values are *defined* by their verified
        __hash__ contracts (QualifiedName: hash(uri); Identifier: hash((uri, class)); Namespace:
        hash((uri, prefix)); Literal: hash((value, datatype, langtag)))."""
        ex = self.ex
        def uf(fn, *args):
            if fn not in self.cx.funs_known:
                self.cx.funs_known.add(fn)
                self.cx.funs.append("(declare-fun %s (%s) Int)" % (fn, " ".join(["Int"] * len(args))))
            return "(%s %s)" % (fn, " ".join(args)) if args else fn
        if isinstance(v, PyV) and v.kind == "tuple":
            hs = [self.hash_of(x, st, node) for x in v.data]
            return uf("hash_tuple%d" % len(hs), *hs)
        if isinstance(v, PyV) and v.kind == "class":
            return ilit(self.cx.class_ids[v.data.name])
        if isinstance(v, PyV) and v.kind == "typeof":
            o = v.data
            if isinstance(o, SV) and o.ty.kind in ("QN", "Ident"):
                return ilit(self.cx.class_ids[ex.VALUE_CLASS_OF[o.ty.kind]])
            raise Unsupported("hash of type()", node)
        if isinstance(v, SV):
            k = v.ty.kind
            S = self.cx.sorts
            if k == "str":
                return "(hash_str %s)" % v.t
            if k == "none":
                return uf("hash_none")
            if k == "QN":
                self.cx.deps.add("hashmodel:QualifiedName.__hash__")
                return "(hash_str (qn_uri %s))" % v.t
            if k == "Ident":
                self.cx.deps.add("hashmodel:Identifier.__hash__")
                return "(hash_str %s)" % v.t
            if k == "Ns":
                self.cx.deps.add("hashmodel:Namespace.__hash__")
                return uf("hash_tuple2", "(hash_str (ns_uri %s))" % v.t, "(hash_str (ns_prefix %s))" % v.t)
            if k == "Lit":
                self.cx.deps.add("hashmodel:Literal.__hash__")
                return uf("hash_tuple3", "(hash_str (lit_value %s))" % v.t,
                          self.hash_of(SV("(lit_dt %s)" % v.t, T.Opt(T.QN)), st, node),
                          self.hash_of(SV("(lit_lang %s)" % v.t, T.Opt(T.STR)), st, node))
            if k == "opt":
                inner = v.ty.args[0]
                return ITE(S.is_none(inner, v.t), uf("hash_none"), self.hash_of(SV(S.the(inner, v.t), inner), st, node))
            if k == "int":
                return uf("hash_int", v.t)
            if k == "bool":
                return uf("hash_int", "(int_of_bool %s)" % v.t)
            if k == "set":
                fn = "hash_fset_" + T.mangle(v.ty)
                if fn not in self.cx.funs_known:
                    self.cx.funs_known.add(fn)
                    self.cx.funs.append("(declare-fun %s (%s) Int)" % (fn, S.sort(v.ty)))
                return "(%s %s)" % (fn, v.t)
        raise Unsupported("hash of %r" % (v,), node)

    # ------------------------------------------------------------ methods on values
    def method(self, f, args, kwargs, st, k, ctl, node):
        ex = self.ex
        S = self.cx.sorts
        name = f.data
        o = f.extra
        if f.kind == "dictmethod":
            m = ex.dict_self(o, st)
            return self.map_method(m, name, args, st, k, ctl, node, recv=o)
        if f.kind == "pymethod":
            if isinstance(o, PyV) and o.kind == "cdict":
                if name == "items":
                    return k(st, PyV("tuple", [PyV("tuple", [a, b]) for a, b in o.data], "list"))
                if name == "keys":
                    return k(st, PyV("tuple", [a for a, _ in o.data], "list"))
                if name == "values":
                    return k(st, PyV("tuple", [b for _, b in o.data], "list"))
            if isinstance(o, PyV) and o.kind == "superbase" and name == "__init__":
                return k(st, SV("none", T.NONE))
            if isinstance(o, PyV) and o.kind == "builtin" and o.data == "dict" and name == "__init__" and args \
                    and isinstance(args[0], SV) and args[0].ty.kind == "ref":
                # dict.__init__(self): the dict part of a dict subclass starts empty
                sc = ex.schema_for(args[0].ty.args[0])
                kk, vv = sc.dict_of
                return k(ex.dict_self_write(args[0], SV(S.empty_map(kk, vv), T.Map(kk, vv)), st), SV("none", T.NONE))
            raise Unsupported("method %s on %r" % (name, o), node)
        # valmethod
        k_ = o.ty.kind
        if k_ == "str":
            return self.str_method(o, name, args, st, k, ctl, node)
        if k_ in ("map", "qmap"):
            return self.map_method(o, name, args, st, k, ctl, node)
        if k_ == "handle" and name in ("close", "flush"):
            return k(st, SV("none", T.NONE))          # buffering is not modelled: writes reach the file at once
        if k_ == "handle" and name in ("getvalue", "read"):
            # what a stream holds is ghost state (the ghost file system, keyed by the stream's name): assumed contract
            return self.external("stream." + name, [o] + list(args), kwargs, st, k, ctl, node)
        if k_ == "DT" and name == "isoformat":
            return k(st, SV("(dt_iso %s)" % o.t, T.STR))
        raise Unsupported("method %s on %r" % (name, o.ty), node)

    def map_method(self, m, name, args, st, k, ctl, node, recv=None):
        ex = self.ex
        S = self.cx.sorts
        vv = m.ty.args[-1]
        if name == "values":
            return k(st, PyV("mapvalues", m))
        if name == "keys":
            return k(st, PyV("mapkeys", m))
        if name == "items":
            return k(st, PyV("mapitems", m))
        if name == "get":
            key = args[0]
            has = ex.map_has(m, key)
            dflt = args[1] if len(args) > 1 else SV("none", T.NONE)
            if dflt.ty == T.NONE:
                return k(st, SV(ITE(has, S.some(vv, ex.map_get(m, key).t), S.none(vv)), T.Opt(vv)))
            d = ex.coerce(dflt, vv)
            return k(st, SV(ITE(has, ex.map_get(m, key).t, d.t), vv))
        raise Unsupported("dict method %s" % name, node)

    def str_method(self, o, name, args, st, k, ctl, node):
        ex = self.ex
        if name == "startswith":
            a = args[0]
            return k(st, SV("(str.prefixof %s %s)" % (a.t, o.t), T.BOOL))
        if name == "endswith":
            return k(st, SV("(str.suffixof %s %s)" % (args[0].t, o.t), T.BOOL))
        if name == "replace":
            a, b = args
            return k(st, SV("(str.replace_all %s %s %s)" % (o.t, a.t, b.t), T.STR))
        if name == "isspace":
            if "str_isspace" not in self.cx.funs_known:
                self.cx.funs_known.add("str_isspace")
                # str.isspace(): non-empty and every character is whitespace (Unicode White_Space + \x1c-\x1f)
                ws = [0x9, 0xa, 0xb, 0xc, 0xd, 0x1c, 0x1d, 0x1e, 0x1f, 0x20, 0x85, 0xa0, 0x1680] + list(range(0x2000, 0x200b)) + \
                     [0x2028, 0x2029, 0x202f, 0x205f, 0x3000]
                alts = " ".join('(str.to_re "\\u{%x}")' % c for c in ws)
                self.cx.funs.append("(define-fun str_isspace ((s String)) Bool (str.in_re s (re.+ (re.union %s))))" % alts)
            return k(st, SV("(str_isspace %s)" % o.t, T.BOOL))
        if name == "lower":
            if "str_lower" not in self.cx.funs_known:
                self.cx.funs_known.add("str_lower")
                self.cx.funs.append("(declare-fun str_lower (String) String)")
            return k(st, SV("(str_lower %s)" % o.t, T.STR))
        if name == "split":
            sep = args[0]
            if len(args) == 2 and args[1].t == "1":
                # s.split(sep, 1): [s] when sep is absent, else [before, after]
                idx = "(str.indexof %s %s 0)" % (o.t, sep.t)
                before = "(str.substr %s 0 %s)" % (o.t, idx)
                after = "(str.substr %s (+ %s (str.len %s)) (str.len %s))" % (o.t, idx, sep.t, o.t)
                has = "(str.contains %s %s)" % (o.t, sep.t)
                if ex.feasible(st, NOT(has)):
                    k(st.assume(NOT(has)).step("s1"), PyV("tuple", [o], "list"))
                if ex.feasible(st, has):
                    k(st.assume(has), PyV("tuple", [SV(before, T.STR), SV(after, T.STR)], "list"))
                return None
            raise Unsupported("str.split shape", node)
        if name == "join":
            a = args[0]
            if isinstance(a, PyV) and a.kind == "tuple":
                parts = []
                for i, x in enumerate(a.data):
                    if i:
                        parts.append(o.t)
                    if not (isinstance(x, SV) and x.ty == T.STR):
                        raise Unsupported("join of non-str", node)
                    parts.append(x.t)
                return k(st, SV(ex.concat(parts), T.STR))
            raise Unsupported("join over symbolic sequence", node)
        if name == "format":
            f = unslit(o.t)
            if f is None:
                raise Unsupported("format on non-constant", node)
            parts = []
            for lit_, field in _fmt_fields(f):
                if lit_:
                    parts.append(slit(lit_))
                if field is not None:
                    parts.append(ex.py_str(args[int(field)] if field != "" else args[0]))
            return k(st, SV(ex.concat(parts), T.STR))
        raise Unsupported("str method %s" % name, node)

    # ------------------------------------------------------------ in-place mutation of containers
    def mutate(self, o, name, args, st, place, k, ctl, node):
        ex = self.ex
        S = self.cx.sorts
        if isinstance(o, PyV) and o.kind == "tuple" and o.extra == "list":
            a = args[0]
            if name == "append":
                return ex.write_back(place, PyV("tuple", list(o.data) + [a], "list"), st, lambda s: k(s, SV("none", T.NONE)), ctl)
            if name == "extend" and isinstance(a, PyV) and a.kind == "tuple":
                return ex.write_back(place, PyV("tuple", list(o.data) + list(a.data), "list"), st, lambda s: k(s, SV("none", T.NONE)), ctl)
            if name == "extend" and isinstance(a, SV) and a.ty.kind == "seq":
                base = self.lower(o, a.ty, st, "list.extend")
                new = SV("(seq.++ %s %s)" % (base.t, a.t) if o.data else a.t, a.ty)
                return ex.write_back(place, new, st, lambda s: k(s, SV("none", T.NONE)), ctl)
            raise Unsupported("list.%s on a python-level list" % name, node)
        if o.ty.kind == "oset" and name == "remove":
            key = ex.rkey_term(args[0].t, st)
            line = getattr(node, "lineno", "?")
            self.cx.oblige("remove-present@%s" % line, st, "(select (os_has %s) %s)" % (o.t, key), {"kind": "safety"})
            new = SV("(mkOSet (store (os_has %s) %s false) (os_rep %s) (- (os_n %s) 1))" % (o.t, key, o.t, o.t), T.OSET)
            return ex.write_back(place, new, st, lambda s: k(s, SV("none", T.NONE)), ctl)
        if o.ty.kind == "vset" and name == "add":
            new = ex.vset_add(o, args[0])
            return ex.write_back(place, new, st, lambda s: k(s, SV("none", T.NONE)), ctl)
        if o.ty.kind == "set" and name == "add":
            new = SV("(store %s %s true)" % (o.t, ex.key_term(args[0], o.ty.args[0])), o.ty)
            return ex.write_back(place, new, st, lambda s: k(s, SV("none", T.NONE)), ctl)
        if o.ty.kind == "seq" and name == "append":
            v = ex.coerce(args[0], o.ty.args[0], "list.append")
            new = SV("(seq.++ %s (seq.unit %s))" % (o.t, v.t), o.ty)
            return ex.write_back(place, new, st, lambda s: k(s, SV("none", T.NONE)), ctl)
        if o.ty.kind == "seq" and name == "extend":
            a = args[0]
            if isinstance(a, SV) and a.ty == o.ty:
                new = SV("(seq.++ %s %s)" % (o.t, a.t), o.ty)
                return ex.write_back(place, new, st, lambda s: k(s, SV("none", T.NONE)), ctl)
        if o.ty.kind == "map" and name == "update":
            a = args[0]
            if isinstance(a, PyV) and a.kind == "cdict":
                m = o
                for kk, vv in a.data:
                    m = ex.map_put(m, kk, vv)
                return ex.write_back(place, m, st, lambda s: k(s, SV("none", T.NONE)), ctl)
        raise Unsupported("mutation %s on %r" % (name, o.ty), node)

    def mutate_dict_self(self, o, m, name, args, st, k, ctl, node):
        ex = self.ex
        if name == "update":
            a = args[0]
            if isinstance(a, PyV) and a.kind == "cdict":
                for kk, vv in a.data:
                    m = ex.map_put(m, kk, vv)
                return k(ex.dict_self_write(o, m, st), SV("none", T.NONE))
        raise Unsupported("dict-subclass mutation %s" % name, node)

    # ------------------------------------------------------------ external functions (assumed contracts)
    def external(self, qname, args, kwargs, st, k, ctl, node):
        from .calls import apply_contract
        if qname == "collections.defaultdict":
            # defaultdict(set) / defaultdict(list): an empty dict whose missing entries read as empty
            # (the declared field type QMap[VSet] / QMap[Seq[..]] is the total-map view of it)
            return k(st, PyV("cdict", []))
        c = self.ex.specs.contracts.get("ext:" + qname)
        if c is None:
            raise Unsupported("external call %s has no assumed contract" % qname, node)
        return apply_contract(self.ex, c, None, args, kwargs, st, k, ctl, node)

    # ------------------------------------------------------------ specification vocabulary
    def spec_builtin(self, name, args, kwargs, st, node):
        ex = self.ex
        S = self.cx.sorts
        a = args
        B = lambda t: SV(t, T.BOOL)
        if name == "ck":
            return SV("(ck %s)" % ex.box(a[0]).t, T.VAL)
        if name == "vs_has":
            return B("(select (vs_has %s) %s)" % (a[0].t, ex.box(a[1]).t))
        if name == "vs_rep":
            return SV("(select (vs_rep %s) %s)" % (a[0].t, ex.box(a[1]).t), T.VAL)
        if name == "vs_n":
            return SV("(vs_n %s)" % a[0].t, T.INT)
        if name == "vs_in":
            return B(ex.vset_in(a[0], a[1]))
        if name == "vs_wf":
            return B("(vs_wf %s)" % a[0].t)
        if name == "vs_first":
            if not st.bound:
                # choice function of set iteration: the first element is a member
                self.cx.axioms.append("(=> (not (= (vs_has %s) ((as const (Array Val Bool)) false))) (select (vs_has %s) (vs_firstkey %s)))" % (a[0].t, a[0].t, a[0].t))
                self.cx.axioms.append("(=> (and (vs_wf %s) (> (vs_n %s) 0)) (select (vs_has %s) (vs_firstkey %s)))" % (a[0].t, a[0].t, a[0].t, a[0].t))
            return SV("(vs_first %s)" % a[0].t, T.VAL)
        if name == "vs_add":
            return ex.vset_add(a[0], a[1])
        if name == "vs_empty":
            return SV("vs_empty", T.VSET)
        if name in ("qm_has", "qm_get", "qm_key"):
            m = a[0]
            vv = m.ty.args[0]
            mk, tab, keyf = T.qm_names(vv)
            S.sort(m.ty)
            u = a[1].t if a[1].ty == T.STR else ex.qkey(a[1])
            cell = "(select (%s %s) %s)" % (tab, m.t, u)
            if name == "qm_has":
                return B(ex.cell_present(cell, vv))
            if name == "qm_key":
                return SV("(select (%s %s) %s)" % (keyf, m.t, u), T.QN)
            return SV(cell if T.total_map_value(vv) else S.the(vv, cell), vv)
        if name == "fs_get":
            # ghost file system: content of the file at a path (None = no such file), in the current / old state
            S.sort(T.Opt(T.STR))
            return SV("(select %s %s)" % (ex.fs_term(st), ex.coerce(a[0], T.STR).t), T.Opt(T.STR))
        if name == "jobj":
            S.sort(T.JREP)
            return SV("(JObj %s %s %s)" % (ex.box(a[0]).t, ex.coerce(a[1], T.Opt(T.STR)).t, ex.coerce(a[2], T.Opt(T.STR)).t), T.JREP)
        if name == "jplain":
            S.sort(T.JREP)
            return SV("(JPlain %s)" % ex.box(a[0]).t, T.JREP)
        if name == "is_jobj":
            return B("((_ is JObj) %s)" % a[0].t)
        if name == "j_dollar":
            return SV("(jdollar %s)" % a[0].t, T.VAL)
        if name == "j_plain":
            return SV("(jplain %s)" % a[0].t, T.VAL)
        if name == "j_type":
            return SV("(jtype %s)" % a[0].t, T.Opt(T.STR))
        if name == "j_lang":
            return SV("(jlang %s)" % a[0].t, T.Opt(T.STR))
        if name == "pair":
            pt = T.Tup(a[0].ty, a[1].ty)
            return SV("(mk_%s %s %s)" % (S.sort(pt), a[0].t, a[1].t), pt)
        if name == "seq_has":
            x = ex.coerce(a[1], a[0].ty.args[0])
            return B(_member(a[0].t, x.t))
        if name == "seq_snoc_lemma":
            # valid facts of the theory of sequences about appending one element (stated for the solvers)
            from .spec import parse_type
            es = S.sort(parse_type(unslit(a[0].t)))
            return B("(forall ((l (Seq %s)) (x %s)) (and (= (seq.len (seq.++ l (seq.unit x))) (+ (seq.len l) 1)) "
                     "(= (seq.nth (seq.++ l (seq.unit x)) (seq.len l)) x) "
                     "(forall ((j Int)) (=> (and (<= 0 j) (< j (seq.len l))) (= (seq.nth (seq.++ l (seq.unit x)) j) (seq.nth l j))))))" % (es, es))
        if name == "seq_member_index_lemma":
            # a member of a sequence sits at some index (fact of the theory of sequences, stated for the solver;
            # instantiated for one sequence term)
            es = S.sort(a[0].ty.args[0])
            return B("(forall ((p %s)) (=> (seq.contains %s (seq.unit p)) (exists ((j Int)) (and (<= 0 j) (< j (seq.len %s)) (= (seq.nth %s j) p)))))"
                     % (es, a[0].t, a[0].t, a[0].t))
        if name == "attr_set":
            # the python set of (name, value) pairs of an attribute table, as a set of canonical pairs
            pt = T.Tup(T.STR, T.VAL)
            pn = S.sort(pt)
            ms = S.sort(a[0].ty)
            if "attrset" not in self.cx.funs_known:
                self.cx.funs_known.add("attrset")
                self.cx.funs.append("(declare-fun attrset (%s) (Array %s Bool))" % (ms, pn))
                self.cx.funs.append("(assert (forall ((m %s) (p %s)) (= (select (attrset m) p) "
                                    "(select (vs_has (select (%s m) (%s_0 p))) (%s_1 p)))))" % (ms, pn, T.qm_names(T.VSET)[1], pn, pn))
            return SV("(attrset %s)" % a[0].t, T.SetT(pt))
        if name == "is_formal":
            # u is the URI of one of the FORMAL_ATTRIBUTES of the record's class
            r = a[0]
            subs = sorted(ex.repo.subclasses("ProvRecord"), key=lambda c: c.name)
            cases = []
            for ci in subs:
                fa = ci.class_attr("FORMAL_ATTRIBUTES")
                uris = [ex.uri_of(ex.const(x)) for x in (fa["v"] if fa else [])]
                if uris:
                    cases.append(AND(ex.cls_exact(r.t, ci.name), OR(*[EQ(a[1].t, u) for u in uris])))
            return B(OR(*cases))
        if name == "uri_in":
            cs = a[1]
            return B(OR(*[EQ(a[0].t, ex.uri_of(x)) for x in cs.data]))
        if name == "set_has":
            x = ex.coerce(a[1], a[0].ty.args[0]) if isinstance(a[1], SV) else a[1]
            return B("(select %s %s)" % (a[0].t, x.t))
        if name == "recs_with_id":
            ex.need_filters()
            hi = ex.heap_term(st, ("ProvRecord", "_identifier"), T.Opt(T.QN))
            return SV("(filtid %s %s %s)" % (a[0].t, hi, a[1].t), a[0].ty)
        if name == "recs_of_class":
            ex.need_filters()
            return SV("(filtcls %s %s)" % (a[0].t, a[1].t), a[0].ty)
        if name == "fresh":
            # allocated now, not allocated in the pre-state
            def alloc_of(state):
                arr = state.heap.get(("$", "alloc")) if state is not None else None
                if arr is None:
                    if "alloc@0" not in self.cx.funs_known:
                        self.cx.funs_known.add("alloc@0")
                        self.cx.consts.append(("alloc@0", "(Array Int Bool)"))
                    arr = "alloc@0"
                return arr
            return B(AND(NOT("(select %s %s)" % (alloc_of(st.old), a[0].t)), "(select %s %s)" % (alloc_of(st), a[0].t)))
        if name == "allocated":
            arr = st.heap.get(("$", "alloc"))
            if arr is None:
                if "alloc@0" not in self.cx.funs_known:
                    self.cx.funs_known.add("alloc@0")
                    self.cx.consts.append(("alloc@0", "(Array Int Bool)"))
                arr = "alloc@0"
            return B("(select %s %s)" % (arr, a[0].t))
        if name == "rkey":
            return SV(ex.rkey_term(a[0].t, st), T.RKEY)
        if name == "rec_keys":
            return SV(ex.rec_keys(a[0], st), T.SetT(T.RKEY))
        if name == "os_has":
            if len(a) == 1:
                return SV("(os_has %s)" % a[0].t, T.SetT(T.RKEY))
            return B("(select (os_has %s) %s)" % (a[0].t, a[1].t))
        if name == "os_n":
            return SV("(os_n %s)" % a[0].t, T.INT)
        if name == "os_rep":
            if len(a) == 2:
                return SV("(select (os_rep %s) %s)" % (a[0].t, a[1].t), T.Ref("ProvRecord"))
            return SV("(os_rep %s)" % a[0].t, T.T("tarray", T.RKEY, T.Ref("ProvRecord")))
        if name == "entry":
            return st.env["$entry"][unslit(a[0].t)]
        if name == "canon_set":
            return self.canon_pair_set(a[0], st)[1]
        if name == "canon_in":
            ex.need_canon_in()
            return B("(canon_in %s %s %s)" % (a[0].t, a[1].t, ex.box(a[2]).t))
        if name == "hash_of":
            return SV(self.hash_of(a[0], st, node), T.INT)
        if name == "tbl":
            return ex.dict_self(a[0], st)
        if name == "same":
            x, y = a
            if x.ty != y.ty:
                x, y = ex.unify(x, y)
            return B(EQ(x.t, y.t))
        if name == "hash_str":
            return SV("(hash_str %s)" % a[0].t, T.INT)
        if name == "implies":
            return B(IMPLIES(ex.truthy(a[0], st), ex.truthy(a[1], st)))
        if name == "iff":
            return B(EQ(ex.truthy(a[0], st), ex.truthy(a[1], st)))
        if name == "ite":
            x, y = ex.unify(a[1], a[2])
            return SV(ITE(ex.truthy(a[0], st), x.t, y.t), x.ty)
        if name == "mkNs":
            return SV("(mkNs %s %s)" % (a[0].t, a[1].t), T.NS)
        if name == "mkQN":
            return SV("(mkQN %s %s)" % (ex.coerce(a[0], T.NS).t, a[1].t), T.QN)
        if name == "mkLit":
            return SV("(mkLit %s %s %s)" % (a[0].t, ex.coerce(a[1], T.Opt(T.QN)).t,
                                             ex.coerce(a[2], T.Opt(T.STR)).t), T.LIT)
        if name == "Ident":
            return SV(a[0].t, T.IDENT)
        if name == "box":
            return ex.box(a[0])
        if name in ("is_str", "is_qn", "is_ident", "is_none", "is_lit", "is_int", "is_bool",
                    "is_float", "is_dt", "is_ref", "is_other"):
            ctor = {"is_str": "VStr", "is_qn": "VQN", "is_ident": "VIdent", "is_none": "VNone",
                    "is_lit": "VLit", "is_int": "VInt", "is_bool": "VBool", "is_float": "VFloat",
                    "is_dt": "VDT", "is_ref": "VRef", "is_other": "VOther"}[name]
            v = a[0]
            if v.ty.kind == "opt" and name == "is_none":
                return B(S.is_none(v.ty.args[0], v.t))
            return B("((_ is %s) %s)" % (ctor, ex.box(v).t))
        if name in ("as_str", "as_qn", "as_ident", "as_lit", "as_int", "as_bool", "as_ref", "as_dt", "as_float"):
            ty = {"as_str": T.STR, "as_qn": T.QN, "as_ident": T.IDENT, "as_lit": T.LIT, "as_int": T.INT,
                  "as_bool": T.BOOL, "as_dt": T.DT, "as_float": T.FLT}.get(name)
            if name == "as_ref":
                ty = T.Ref(unslit(a[1].t))
            return ex.unbox(ex.box(a[0]), ty)
        if name == "some":
            return SV(S.some(a[0].ty, a[0].t), T.Opt(a[0].ty))
        if name == "the":
            if a[0].ty.kind != "opt":
                return a[0]           # already narrowed by a test on the path
            return SV(S.the(a[0].ty.args[0], a[0].t), a[0].ty.args[0])
        if name == "replace_all":
            return SV("(str.replace_all %s %s %s)" % (a[0].t, a[1].t, a[2].t), T.STR)
        if name == "indexof":
            return SV("(str.indexof %s %s %s)" % (a[0].t, a[1].t, a[2].t if len(a) > 2 else "0"), T.INT)
        if name == "substr":
            return SV("(str.substr %s %s %s)" % (a[0].t, a[1].t, a[2].t), T.STR)
        if name == "prefixof":
            return B("(str.prefixof %s %s)" % (a[0].t, a[1].t))
        if name == "suffixof":
            return B("(str.suffixof %s %s)" % (a[0].t, a[1].t))
        if name == "contains":
            return B("(str.contains %s %s)" % (a[0].t, a[1].t))
        if name == "strlen":
            return SV("(str.len %s)" % a[0].t, T.INT)
        if name == "int_str":
            ex.need_fun("py_str")
            return SV("(int_str %s)" % a[0].t, T.STR)
        if name == "str_to_int":
            return SV("(str.to_int %s)" % a[0].t, T.INT)
        if name == "truthy":
            return B(ex.truthy(a[0], st))
        if name == "py_eq":
            return B(ex.py_eq(a[0], a[1], st))
        if name == "py_str":
            return SV(ex.py_str(a[0]), T.STR)
        if name == "qn_str":
            return SV("(qn_str %s)" % a[0].t, T.STR)
        if name == "qn_uri":
            return SV("(qn_uri %s)" % a[0].t, T.STR)
        if name == "set_add":
            return SV("(store %s %s true)" % (a[0].t, ex.key_term(a[1], a[0].ty.args[0])), a[0].ty)
        if name == "union":
            et = S.sort(a[0].ty.args[0])
            return SV("(lambda ((e %s)) (or (select %s e) (select %s e)))" % (et, a[0].t, a[1].t), a[0].ty)
        if name == "subset":
            et = S.sort(a[0].ty.args[0])
            return B("(forall ((e %s)) (=> (select %s e) (select %s e)))" % (et, a[0].t, a[1].t))
        if name == "store":
            return ex.map_put(a[0], a[1], a[2])
        if name == "empty_set":
            from .spec import parse_type
            return SV(S.empty_set(parse_type(unslit(a[0].t))), T.SetT(parse_type(unslit(a[0].t))))
        if name == "isinst":
            t, _ = ex.isinstance_term(a[0], [unslit(a[1].t)])
            return B(t)
        if name == "exact_class":
            return B(ex.cls_exact(a[0].t, unslit(a[1].t)))
        if name == "clsof":
            return SV("(clsof %s)" % a[0].t, T.INT)
        if name == "clsid":
            return SV(ilit(self.cx.class_ids[unslit(a[0].t)]), T.INT)
        if name == "uf":
            # uf("name", "RetType", args...): uninterpreted function application
            from .spec import parse_type
            fname = unslit(a[0].t)
            rt = parse_type(unslit(a[1].t))
            rest = a[2:]
            if fname not in self.cx.funs_known:
                self.cx.funs_known.add(fname)
                self.cx.funs.append("(declare-fun %s (%s) %s)" % (
                    fname, " ".join(S.sort(x.ty) for x in rest), S.sort(rt)))
            return SV("(%s %s)" % (fname, " ".join(x.t for x in rest)) if rest else fname, rt)
        if name == "const_set":
            # membership of a value in a constant python-level set/tuple
            return B(ex.contains(a[1], a[0], st, node))
        if name == "table_key":
            # the key object of a constant table that equals the given value (keys are qualified names)
            t = a[0].data[-1][0].t
            for kk, _ in reversed(a[0].data[:-1]):
                t = ITE(ex.py_eq(a[1], kk, st), kk.t, t)
            return SV(t, a[0].data[0][0].ty)
        if name == "table_has":
            return B(OR(*[ex.py_eq(a[1], kk, st) for kk, _ in a[0].data]))
        if name == "seq_len":
            return SV("(seq.len %s)" % a[0].t, T.INT)
        if name == "seq_nth":
            return SV("(seq.nth %s %s)" % (a[0].t, a[1].t), a[0].ty.args[0])
        if name == "seq_unit":
            return SV("(seq.unit %s)" % a[0].t, T.Seq(a[0].ty))
        if name == "seq_concat":
            return SV("(seq.++ %s %s)" % (a[0].t, a[1].t), a[0].ty)
        if name == "flt_of_int":
            return SV("(flt_of_int %s)" % a[0].t, T.FLT)
        raise Unsupported("specification builtin %s" % name, node)


def _member(seq_t, x_t):
    """membership of x in a sequence term, distributing over literal structure:
    empty -> false, unit a -> x = a, A ++ B -> member(A) or member(B)"""
    from .core import Ctx
    if seq_t.startswith("(as seq.empty"):
        return "false"
    if seq_t.startswith("(seq.unit ") and seq_t.endswith(")"):
        inner = seq_t[len("(seq.unit "):-1]
        if len(Ctx.conjuncts("(and " + inner + ")")) == 1:
            return EQ(x_t, inner)
    if seq_t.startswith("(seq.++ "):
        parts = Ctx.conjuncts("(and " + seq_t[len("(seq.++ "):])
        return OR(*[_member(p, x_t) for p in parts])
    return "(seq.contains %s (seq.unit %s))" % (seq_t, x_t)


def _units_of(t):
    """elements of a literal sequence term (seq.++ (seq.unit a) ...) / (seq.unit a) / (as seq.empty ..), else None"""
    from .core import Ctx
    if t.startswith("(as seq.empty"):
        return []
    if t.startswith("(seq.unit ") and t.endswith(")"):
        inner = t[len("(seq.unit "):-1]
        parts = Ctx.conjuncts("(and " + inner + ")")
        return [inner] if len(parts) == 1 else None
    if t.startswith("(seq.++ "):
        parts = Ctx.conjuncts("(and " + t[len("(seq.++ "):])
        out = []
        for p in parts:
            u = _units_of(p)
            if u is None:
                return None
            out.extend(u)
        return out
    return None


def _unk(name, node):
    raise Unsupported("hasattr(..., %s)" % name, node)


def _intlit(v):
    if v is None:
        return None
    t = v.t
    if t.startswith("(- "):
        return -int(t[3:-1])
    return int(t)


def _fmt_fields(f):
    import string
    for lit_, field, spec, conv in string.Formatter().parse(f):
        if spec or conv:
            raise Unsupported("format spec in str.format")
        yield lit_, field
