"""Symbolic executor over the real AST (DESIGN 2.1 step 4), continuation-passing style.

ev(e, st, k, ctl)      evaluate expression, call k(st', value) once per feasible path
branch(e, st, kt, kf)  evaluate a test, fork, prune infeasible sides
ex(stmts, st, k, ctl)  execute statements, call k(st') on fall-through
The same evaluator handles contract/spec expressions (st.spec == True: pure, no forks,
extra vocabulary old/forall/exists/implies/result).
"""
import ast
from collections import namedtuple

from . import ty as T
from .core import SV, PyV, ExcVal, State, Unsupported
from .sem import Sem
from .smt import AND, OR, NOT, ITE, EQ, IMPLIES, slit, ilit
from .builtins import MUTATORS

Ctl = namedtuple("Ctl", "ret exc brk cont")

EXC_TREE = {
    # python builtins and the library's own tree (library classes are added from the class table)
    "BaseException": None,
    "Exception": "BaseException",
    "ValueError": "Exception",
    "TypeError": "Exception",
    "KeyError": "LookupError",
    "IndexError": "LookupError",
    "LookupError": "Exception",
    "AttributeError": "Exception",
    "StopIteration": "Exception",
    "NotImplementedError": "RuntimeError",
    "RuntimeError": "Exception",
    "OSError": "Exception",
    "IOError": "Exception",
    "UnicodeDecodeError": "ValueError",
    "Warning": "Exception",
}

BUILTINS = {
    "isinstance", "str", "len", "hash", "int", "float", "bool", "list", "tuple", "set",
    "dict", "frozenset", "type", "hasattr", "getattr", "next", "iter", "print", "super",
    "enumerate", "zip", "sorted", "filter", "map", "object", "open", "repr", "id", "min",
    "max", "any", "all", "range", "bytes", "callable",
}
SPEC_BUILTINS = {
    "old", "forall", "exists", "implies", "iff", "mkNs", "mkQN", "mkLit", "Ident", "box",
    "ite", "is_str", "is_qn", "is_ident", "is_none", "as_str", "as_qn", "as_ident",
    "as_lit", "is_lit", "is_int", "is_bool", "is_float", "is_dt", "is_ref", "as_int",
    "as_bool", "as_ref", "as_dt", "as_float", "some", "the", "empty_set", "empty_map",
    "store", "set_add", "union", "subset", "replace_all", "indexof", "substr", "prefixof",
    "suffixof", "contains", "strlen", "int_str", "str_to_int", "truthy", "py_eq", "py_str",
    "clsid", "clsof", "isinst", "uf", "exact_class", "qn_str", "qn_uri", "map_dom_eq",
    "const_set", "const_map_keys", "table_get", "table_has", "field_array", "is_other",
    "seq_len", "seq_nth", "seq_empty", "seq_unit", "seq_concat", "flt_of_int", "same", "hash_str", "tbl", "canon_in", "vs_has", "vs_n", "vs_in", "vs_wf", "vs_first", "vs_rep", "ck", "qm_has", "qm_get", "qm_key", "pair", "hash_of", "vs_add", "vs_empty", "seq_has", "attr_set", "canon_set", "rkey", "rec_keys", "set_has", "uri_in", "recs_with_id", "recs_of_class", "allocated", "table_key", "seq_member_index_lemma", "is_formal", "fresh", "seq_snoc_lemma", "os_has", "os_n", "os_rep", "entry",
    "jobj", "jplain", "is_jobj", "j_dollar", "j_plain", "j_type", "j_lang", "fs_get",
}


def exc_is_subclass(repo, name, base):
    if base in ("BaseException", None):
        return True
    seen = set()
    cur = name
    while cur and cur not in seen:
        if cur == base:
            return True
        seen.add(cur)
        if cur in repo.classes:
            ci = repo.classes[cur]
            nxt = None
            for c in ci.mro[1:]:
                n = c.name if hasattr(c, "name") else c
                if n == base:
                    return True
            # first non-class base name continues in the builtin tree
            for c in ci.mro:
                n = c.name if hasattr(c, "name") else c
                if n in EXC_TREE:
                    nxt = n
                    break
            cur = nxt
        else:
            cur = EXC_TREE.get(cur)
    return False


def is_exception_class(repo, name):
    if name in EXC_TREE:
        return True
    if name in repo.classes:
        for c in repo.classes[name].mro:
            n = c.name if hasattr(c, "name") else c
            if n in EXC_TREE:
                return True
    return False


class Exec(Sem):
    def __init__(self, cx):
        self.cx = cx
        self.repo = cx.repo
        self.specs = cx.specs
        self.depth = 0
        from .builtins import Builtins

        self.bi = Builtins(self)

    # ================================================================ feasibility
    def feasible(self, st, cond, strong=False):
        if cond == "false":
            return False
        if cond == "true":
            return True
        if self.cx.pruner is None:
            return True
        r = self.cx.pruner(self.cx, st.pc + (cond,))
        if r == "unknown" and strong:
            # an alternative of a dynamic dispatch that the quick in-process check leaves open (strings, quantified
            # ghost state): ask the command-line back ends before executing a callee the receiver cannot have
            from . import solve
            r = solve.solve_one(self.cx.sat_query(st.pc + (cond,)), timeout_s=3.0)["status"]
        if r == "unsat":
            self.cx.dead_paths += 1
            return False
        return True

    def fork(self, st, cond, kt, kf, tag=""):
        """fork on SMT boolean `cond`; kt/kf receive the extended states"""
        if cond == "true":
            return kt(st)
        if cond == "false":
            return kf(st)
        if st.spec:
            raise Unsupported("fork in specification mode")
        ncond = NOT(cond)
        ft = self.feasible(st, cond)
        ff = self.feasible(st, ncond)
        if ft:
            kt(st.assume(cond).step(tag + "T") if ff else st.assume(cond))
        if ff:
            kf(st.assume(ncond).step(tag + "F") if ft else st.assume(ncond))

    # ================================================================ names
    def lookup(self, name, st, node=None):
        if name in st.env:
            return st.env[name]
        if st.spec or True:
            if name in self.specs.specfns:
                return PyV("specfn", self.specs.specfns[name])
            if st.spec and name in self.specs.consts:
                return self.spec_eval(self.specs.consts[name], st)
            if st.spec and name in SPEC_BUILTINS:
                return PyV("specbuiltin", name)
        if st.fn is not None:
            # enclosing function scopes are handled by closures' env; module globals:
            r = self.repo.global_lookup(st.fn.module, name)
            if r is not None:
                kind, data = r
                if kind == "const":
                    return self.const(data)
                if kind in ("func", "class"):
                    return PyV(kind, data)
                if kind == "extclass":
                    return PyV("extclass", data["module"] + "." + data["name"])
                if kind == "extfunc":
                    return PyV("extfunc", "%s.%s" % (data["module"], data["name"]))
                if kind == "module":
                    return PyV("module", data)
        else:
            # spec evaluation outside any function: search all modules for library constants
            for mod in ("prov.model", "prov.constants", "prov.identifier"):
                r = self.repo.global_lookup(mod, name)
                if r is not None:
                    kind, data = r
                    if kind == "const":
                        return self.const(data)
                    if kind in ("func", "class"):
                        return PyV(kind, data)
        if st.spec:
            for mod in ("prov.model", "prov.constants", "prov.identifier",
                        "prov.serializers.provxml", "prov.serializers.provjson",
                        "prov.serializers.provrdf", "prov.dot", "prov.graph"):
                r = self.repo.global_lookup(mod, name)
                if r is not None:
                    kind, data = r
                    if kind == "const":
                        return self.const(data)
                    if kind in ("func", "class"):
                        return PyV(kind, data)
        if name in EXC_TREE:
            return PyV("extclass", "builtins." + name)
        if name in BUILTINS:
            return PyV("builtin", name)
        raise Unsupported("unresolved name %s" % name, node)

    # ================================================================ spec evaluation
    def spec_eval(self, e, st):
        if st.path:
            self.cx.current_path = "".join(st.path)
        out = []
        st2 = st if st.spec else st.copy(spec=True)
        self.ev(e, st2, lambda s, v: out.append(v), None)
        if len(out) != 1:
            raise Unsupported("spec expression did not evaluate to one value: " + ast.unparse(e)[:80], e)
        return out[0]

    def spec_bool(self, e, st):
        v = self.spec_eval(e, st)
        return self.truthy(v, st)

    # ================================================================ expressions
    def ev(self, e, st, k, ctl):
        if st.path:
            self.cx.current_path = "".join(st.path)
        m = getattr(self, "ev_" + type(e).__name__, None)
        if m is None:
            raise Unsupported("expression " + type(e).__name__, e)
        return m(e, st, k, ctl)

    def ev_list(self, es, st, k, ctl, acc=()):
        if not es:
            return k(st, list(acc))
        return self.ev(
            es[0], st, lambda s, v: self.ev_list(es[1:], s, k, ctl, acc + (v,)), ctl
        )

    def ev_Constant(self, e, st, k, ctl):
        if isinstance(e.value, bytes):
            raise Unsupported("bytes constant", e)
        return k(st, self.pyconst(e.value))

    def ev_Name(self, e, st, k, ctl):
        return k(st, self.lookup(e.id, st, e))

    def ev_Tuple(self, e, st, k, ctl):
        return self.ev_list(e.elts, st, lambda s, vs: k(s, PyV("tuple", vs)), ctl)

    def ev_List(self, e, st, k, ctl):
        return self.ev_list(e.elts, st, lambda s, vs: k(s, PyV("tuple", vs, "list")), ctl)

    def ev_Set(self, e, st, k, ctl):
        return self.ev_list(e.elts, st, lambda s, vs: k(s, PyV("cset", vs)), ctl)

    def ev_Dict(self, e, st, k, ctl):
        if any(x is None for x in e.keys):
            raise Unsupported("dict unpacking", e)

        def got(s, vs):
            n = len(e.keys)
            return k(s, PyV("cdict", list(zip(vs[:n], vs[n:]))))

        return self.ev_list(list(e.keys) + list(e.values), st, got, ctl)

    def ev_JoinedStr(self, e, st, k, ctl):
        parts = []
        for v in e.values:
            if isinstance(v, ast.Constant):
                parts.append(v)
            elif isinstance(v, ast.FormattedValue):
                if v.format_spec is not None or v.conversion not in (-1, 115):
                    raise Unsupported("f-string format spec", e)
                parts.append(v.value)

        def got(s, vs):
            ts = [self.py_str(x) for x in vs]
            return k(s, SV(self.concat(ts), T.STR))

        return self.ev_list(parts, st, got, ctl)

    def concat(self, ts):
        ts = [t for t in ts if t != '""']
        if not ts:
            return '""'
        if len(ts) == 1:
            return ts[0]
        return "(str.++ %s)" % " ".join(ts)

    def ev_Lambda(self, e, st, k, ctl):
        return k(st, PyV("lambda", e, dict(st.env)))

    # ---------------------------------------------------------------- attribute
    def ev_Attribute(self, e, st, k, ctl):
        return self.ev(e.value, st, lambda s, o: self.getattr(o, e.attr, s, k, ctl, e), ctl)

    VALUE_FIELDS = {
        "Ns": {"_prefix": ("(ns_prefix %s)", T.STR), "_uri": ("(ns_uri %s)", T.STR)},
        "QN": {
            "_namespace": ("(qn_ns %s)", T.NS),
            "_localpart": ("(qn_local %s)", T.STR),
            "_uri": ("(qn_uri %s)", T.STR),
            "_str": ("(qn_str %s)", T.STR),
        },
        "Ident": {"_uri": ("%s", T.STR)},
        "Lit": {
            "_value": ("(lit_value %s)", T.STR),
            "_datatype": ("(lit_dt %s)", T.Opt(T.QN)),
            "_langtag": ("(lit_lang %s)", T.Opt(T.STR)),
        },
    }
    VALUE_CLASS_OF = {"Ns": "Namespace", "QN": "QualifiedName", "Ident": "Identifier", "Lit": "Literal"}

    def getattr(self, o, attr, st, k, ctl, node=None):
        S = self.cx.sorts
        if isinstance(o, PyV):
            if o.kind == "module":
                return k(st, self.bi.module_attr(o.data, attr, node))
            if o.kind == "newobj":
                fields = st.env.get("$newobj", {})
                if attr in fields:
                    return k(st, fields[attr])
                ci = o.extra
                fi = ci.lookup(attr)
                if fi is not None:
                    if fi.is_property:
                        return self.call_func(fi, [o], {}, st, k, ctl, node)
                    return k(st, PyV("bound", fi, o))
                raise Unsupported("read of unset attribute %s on object under construction" % attr, node)
            if o.kind == "class":
                ci = o.data
                fi = ci.lookup(attr)
                if fi is not None:
                    return k(st, PyV("func", fi))
                ca = ci.class_attr(attr)
                if ca is not None:
                    return k(st, self.const(ca))
                raise Unsupported("class attribute %s.%s" % (ci.name, attr), node)
            if o.kind in ("tuple", "cdict", "cset", "extclass", "extfunc", "builtin"):
                return k(st, PyV("pymethod", attr, o))
            if o.kind == "super":
                ci, selfv = o.data
                for c in ci.mro[1:]:
                    if hasattr(c, "methods") and attr in c.methods:
                        return k(st, PyV("bound", c.methods[attr], selfv))
                return k(st, PyV("pymethod", attr, PyV("superbase", selfv)))
            raise Unsupported("attribute %s of %r" % (attr, o), node)
        ty = o.ty
        if ty.kind == "opt":
            # implicit dereference: obligation that the value is not None
            inner = ty.args[0]
            if not st.spec:
                self.cx.oblige(
                    "none-safe@%s" % getattr(node, "lineno", "?"),
                    st,
                    NOT(S.is_none(inner, o.t)),
                    {"kind": "safety", "expr": ast.unparse(node) if node else ""},
                )
                st = st.assume(NOT(S.is_none(inner, o.t)))
            return self.getattr(SV(S.the(inner, o.t), inner), attr, st, k, ctl, node)
        if ty.kind in self.VALUE_FIELDS:
            vf = self.VALUE_FIELDS[ty.kind]
            if attr == "__class__":
                return k(st, PyV("class", self.repo.classes[self.VALUE_CLASS_OF[ty.kind]]))
            if attr == "_cache" and ty.kind == "Ns":
                return k(*self.ns_cache(o, st))
            if attr in vf:
                pat, fty = vf[attr]
                if ty.kind == "QN" and attr == "_uri":
                    return k(st, SV(self.qn_uri_term(o.t), fty))
                return k(st, SV(pat % o.t, fty))
            ci = self.repo.classes[self.VALUE_CLASS_OF[ty.kind]]
            fi = ci.lookup(attr)
            if fi is None:
                if st.spec:
                    raise Unsupported("no attribute %s on %s" % (attr, ty), node)
                return ctl.exc(st, ExcVal("AttributeError", node=node))
            if fi.is_property:
                return self.call_func(fi, [o], {}, st, k, ctl, node)
            return k(st, PyV("bound", fi, o))
        if ty.kind == "ref":
            cls = ty.args[0]
            fr = self.field_read(o, attr, st)
            if fr is not None:
                return k(st, fr)
            ci = self.repo.classes.get(cls)
            if ci is not None:
                fi = ci.lookup(attr)
                if fi is not None:
                    # dynamic dispatch: subclasses may override the method/property
                    impls = {}
                    for sub in self.repo.subclasses(cls):
                        sfi = sub.lookup(attr)
                        if sfi is not None:
                            impls.setdefault(sfi.qualname, (sfi, []))[1].append(sub.name)
                    if len(impls) > 1 and not st.spec:
                        alts = []
                        for q_, (sfi, subs) in sorted(impls.items()):
                            cond = OR(*[self.cls_exact(o.t, sname) for sname in subs])
                            alts.append((cond, sfi, SV(o.t, T.Ref(sfi.cls.name)) if sfi.cls.is_subclass_of(cls) else o))
                        if fi.is_property:
                            for cond, sfi, ov in alts:
                                if self.feasible(st, cond):
                                    self.call_func(sfi, [ov], {}, st.assume(cond).step("d"), k, ctl, node)
                            return None
                        return k(st, PyV("dynmethod", alts))
                    if fi.is_property:
                        return self.call_func(fi, [o], {}, st, k, ctl, node)
                    return k(st, PyV("bound", fi, o))
                ca = ci.class_attr(attr)
                if ca is not None:
                    # class-level constant: depends on the dynamic class
                    return k(st, self.dyn_class_attr(o, cls, attr, st))
            sc = self.schema_for(cls)
            if sc is not None and sc.dict_of is not None:
                return k(st, PyV("dictmethod", attr, o))
            raise Unsupported("attribute %s.%s (not in schema)" % (cls, attr), node)
        if ty.kind == "Val":
            if st.spec:
                raise Unsupported("attribute %s of a Val in a specification (use as_qn/as_lit ...)" % attr, node)
            done_any = False
            for ctor, uty in (("VQN", T.QN), ("VIdent", T.IDENT), ("VLit", T.LIT), ("VStr", T.STR),
                              ("VDT", T.DT), ("VRef", T.Ref("ProvRecord"))):
                c = "((_ is %s) %s)" % (ctor, o.t)
                if self.feasible(st, c):
                    self.getattr(self.unbox(o, uty), attr, st.assume(c).step("a" + ctor[1:3]), k, ctl, node)
            rest = AND(*[NOT("((_ is %s) %s)" % (c_, o.t)) for c_ in ("VQN", "VIdent", "VLit", "VStr", "VDT", "VRef")])
            if self.feasible(st, rest):
                ctl.exc(st.assume(rest).step("aX"), ExcVal("AttributeError", node=node))
            return None
        if ty.kind in ("map", "set", "seq", "str", "DT", "Flt", "int", "bool", "none", "vset", "qmap", "oset", "handle"):
            return k(st, PyV("valmethod", attr, o))
        raise Unsupported("attribute %s of %r" % (attr, ty), node)

    def ns_cache(self, ns, st):
        """Namespace._cache: a memo table local to the namespace object; modelled as an arbitrary
        map satisfying the coherence invariant  l in cache => cache[l] == QN(ns, l)  (established by
        __init__'s empty dict, re-checked at every write)."""
        key = "$cache:" + ns.t
        if key in st.env:
            return st, st.env[key]
        mt = T.Map(T.STR, T.QN)
        m = self.cx.fresh("cache", mt)
        S = self.cx.sorts
        coh = "(forall ((l String)) (=> (not (= (select %s l) none_QN)) (= (the_QN (select %s l)) (mkQN %s l))))" % (m.t, m.t, ns.t)
        S.sort(T.Opt(T.QN))
        st = st.assume(coh).bind(key, m)
        return st, m

    def dyn_class_attr(self, o, cls, attr, st):
        """class attribute whose value depends on the dynamic class of o"""
        subs = sorted(self.repo.subclasses(cls), key=lambda c: c.name)
        vals = {}
        for c in subs:
            vals[c.name] = c.class_attr(attr)
        distinct = {repr(v) for v in vals.values()}
        if len(distinct) == 1:
            return self.const(next(iter(vals.values())))
        consts = {n: self.const(v) for n, v in vals.items()}
        if all(isinstance(c, SV) for c in consts.values()):
            tys = {c.ty for c in consts.values() if c.ty != T.NONE}
            if len(tys) == 1:
                ty = next(iter(tys))
                if any(c.ty == T.NONE for c in consts.values()):
                    ty = T.Opt(ty)
                items = sorted(consts.items())
                fn = "cattr_%s_%s" % (cls, attr.strip("_"))
                if fn not in self.cx.funs_known:
                    self.cx.funs_known.add(fn)
                    t = self.coerce(items[-1][1], ty).t
                    for n, c in reversed(items[:-1]):
                        t = ITE("(= cid %d)" % self.cx.class_ids[n], self.coerce(c, ty).t, t)
                    self.cx.funs.append("(define-fun %s ((cid Int)) %s %s)" % (fn, self.cx.sorts.sort(ty), t))
                return SV("(%s (clsof %s))" % (fn, o.t), ty)
        return PyV("dynattr", (o, attr, vals))

    # ---------------------------------------------------------------- operators
    def ev_UnaryOp(self, e, st, k, ctl):
        if isinstance(e.op, ast.Not):
            return self.ev(e.operand, st, lambda s, v: k(s, SV(NOT(self.truthy(v, s)), T.BOOL)), ctl)
        if isinstance(e.op, ast.USub):
            return self.ev(e.operand, st, lambda s, v: k(s, SV("(- %s)" % v.t, T.INT)), ctl)
        raise Unsupported("unary op", e)

    def ev_BoolOp(self, e, st, k, ctl):
        is_and = isinstance(e.op, ast.And)
        if st.spec:
            def got(s, vs):
                ts = [self.truthy(v, s) for v in vs]
                return k(s, SV(AND(*ts) if is_and else OR(*ts), T.BOOL))
            return self.ev_list(e.values, st, got, ctl)
        # code mode, value position: python returns one of the operands
        def go(i, s):
            if i == len(e.values) - 1:
                return self.ev(e.values[i], s, k, ctl)
            def got(s2, v):
                c = self.truthy(v, s2)
                if is_and:
                    return self.fork(s2, c, lambda s3: go(i + 1, s3), lambda s3: k(s3, v), "b")
                return self.fork(s2, c, lambda s3: k(s3, v), lambda s3: go(i + 1, s3), "b")
            return self.ev(e.values[i], s, got, ctl)
        return go(0, st)

    def ev_IfExp(self, e, st, k, ctl):
        if st.spec:
            def got(s, vs):
                c, a, b = vs
                ct = self.truthy(c, s)
                if isinstance(a, PyV) or isinstance(b, PyV):
                    if ct == "true":
                        return k(s, a)
                    if ct == "false":
                        return k(s, b)
                    raise Unsupported("conditional over python-level values in spec", e)
                a, b = self.unify(a, b)
                return k(s, SV(ITE(ct, a.t, b.t), a.ty))
            return self.ev_list([e.test, e.body, e.orelse], st, got, ctl)
        return self.branch(
            e.test,
            st,
            lambda s: self.ev(e.body, s, k, ctl),
            lambda s: self.ev(e.orelse, s, k, ctl),
            ctl,
        )

    def unify(self, a, b):
        if a.ty == b.ty:
            return a, b
        if a.ty == T.NONE and b.ty.kind != "none":
            t = T.Opt(b.ty)
            return self.coerce(a, t), self.coerce(b, t)
        if b.ty == T.NONE:
            t = T.Opt(a.ty)
            return self.coerce(a, t), self.coerce(b, t)
        if a.ty.kind == "opt" and b.ty == a.ty.args[0]:
            return a, self.coerce(b, a.ty)
        if b.ty.kind == "opt" and a.ty == b.ty.args[0]:
            return self.coerce(a, b.ty), b
        if a.ty.kind == "ref" and b.ty.kind == "ref":
            return a, SV(b.t, a.ty)
        return self.box(a), self.box(b)

    def ev_Compare(self, e, st, k, ctl):
        if len(e.ops) != 1:
            if st.spec:
                # a < b < c chains
                def got(s, vs):
                    ts = []
                    for i, op in enumerate(e.ops):
                        ts.append(self.compare(op, vs[i], vs[i + 1], s, e))
                    return k(s, SV(AND(*ts), T.BOOL))
                return self.ev_list([e.left] + list(e.comparators), st, got, ctl)
            raise Unsupported("comparison chain", e)
        op = e.ops[0]

        def got(s, vs):
            a, b = vs
            if not s.spec and isinstance(op, (ast.Eq, ast.NotEq)):
                # == on objects whose class defines __eq__ with a contract: go through the call
                r = self.eq_via_contract(op, a, b, s, k, ctl, e)
                if r is not NotImplemented:
                    return r
            return k(s, SV(self.compare(op, a, b, s, e), T.BOOL))

        return self.ev_list([e.left, e.comparators[0]], st, got, ctl)

    def eq_via_contract(self, op, a, b, st, k, ctl, node):
        """== / != on objects whose class defines __eq__/__ne__: through the method (its contract)"""
        if isinstance(a, SV) and a.ty.kind == "ref":
            ci = self.repo.classes.get(a.ty.args[0])
            if ci is None:
                return NotImplemented
            meth = "__eq__" if isinstance(op, ast.Eq) else "__ne__"
            fi = ci.lookup(meth)
            if fi is not None:
                return self.call_func(fi, [a, b], {}, st, k, ctl, node)
            if meth == "__ne__" and ci.lookup("__eq__") is not None:
                fe = ci.lookup("__eq__")
                return self.call_func(fe, [a, b], {}, st, lambda s, v: k(s, SV(NOT(self.truthy(v, s)), T.BOOL)), ctl, node)
        return NotImplemented

    def compare(self, op, a, b, st, node):
        S = self.cx.sorts
        if isinstance(op, ast.Eq):
            return self.py_eq(a, b, st)
        if isinstance(op, ast.NotEq):
            return NOT(self.py_eq(a, b, st))
        if isinstance(op, (ast.Is, ast.IsNot)):
            t = self.is_identical(a, b, st)
            return t if isinstance(op, ast.Is) else NOT(t)
        if isinstance(op, (ast.In, ast.NotIn)):
            t = self.contains(b, a, st, node)
            return t if isinstance(op, ast.In) else NOT(t)
        if isinstance(op, (ast.Lt, ast.LtE, ast.Gt, ast.GtE)):
            sym = {ast.Lt: "<", ast.LtE: "<=", ast.Gt: ">", ast.GtE: ">="}[type(op)]
            if a.ty == T.INT and b.ty == T.INT:
                return "(%s %s %s)" % (sym, a.t, b.t)
            raise Unsupported("ordering on %r" % (a.ty,), node)
        raise Unsupported("comparison operator", node)

    def is_identical(self, a, b, st):
        S = self.cx.sorts
        if isinstance(a, PyV) or isinstance(b, PyV):
            if isinstance(a, PyV) and isinstance(b, PyV) and "typeof" in (a.kind, b.kind):
                return self.py_eq(a, b, st)          # type(x) is int: classes are singletons
            raise Unsupported("`is` on python-level values")
        if b.ty == T.NONE or a.ty == T.NONE:
            o = a if b.ty == T.NONE else b
            if o.ty == T.NONE:
                return "true"
            if o.ty.kind == "opt":
                return S.is_none(o.ty.args[0], o.t)
            if o.ty == T.VAL:
                return "((_ is VNone) %s)" % o.t
            return "false"
        if a.ty.kind == "ref" and b.ty.kind == "ref":
            return EQ(a.t, b.t)
        if a.ty.kind == "opt" or b.ty.kind == "opt":
            if a.ty.kind == "opt" and b.ty.kind == "opt" and a.ty.args[0].kind == "ref":
                return EQ(a.t, b.t)
        if a.ty == b.ty and a.ty.kind in ("Ns", "QN", "Lit", "Ident"):
            # identity of immutable value objects is not tracked: an unconstrained Boolean
            # that implies structural equality (DESIGN 2.3 Operators)
            if st.spec:
                raise Unsupported("`is` on value objects in a specification")
            bname = self.cx.fresh("same", T.BOOL)
            self.cx.axioms.append(IMPLIES(bname.t, EQ(a.t, b.t)))
            return bname.t
        if a.ty == b.ty and a.ty.kind == "bool":
            return EQ(a.t, b.t)
        raise Unsupported("`is` between %r and %r" % (a.ty, b.ty))

    def contains(self, cont, x, st, node=None):
        S = self.cx.sorts
        if isinstance(cont, PyV) and cont.kind == "dynattr":
            o, attr, vals = cont.data
            return OR(*[AND(self.cls_exact(o.t, cn), self.contains(self.const(enc), x, st, node))
                        for cn, enc in sorted(vals.items())])
        if isinstance(cont, PyV):
            if cont.kind in ("tuple", "cset"):
                return OR(*[self.py_eq(x, y, st) for y in cont.data])
            if cont.kind == "cdict":
                return OR(*[self.py_eq(x, kk, st) for kk, _ in cont.data])
            if cont.kind == "mapvalues":
                m = cont.data
                kk, vv = m.ty.args
                xv = self.coerce(x, vv, "in .values()")
                return "(exists ((k %s)) (= (select %s k) %s))" % (
                    S.sort(kk), m.t, S.some(vv, xv.t))
            if cont.kind == "mapkeys":
                return self.map_has(cont.data, x)
            raise Unsupported("`in` on %r" % (cont,), node)
        k = cont.ty.kind
        if k == "jrep":
            key = x.t.strip('"') if isinstance(x, SV) and x.ty == T.STR and x.t.startswith('"') else None
            if key == "$":
                return "((_ is JObj) %s)" % cont.t
            if key in ("type", "lang"):
                return AND("((_ is JObj) %s)" % cont.t, NOT(S.is_none(T.STR, "(j%s %s)" % (key, cont.t))))
            raise Unsupported("`in` on a JSON representation with a non-constant key", node)
        if k == "str":
            if x.ty != T.STR:
                raise Unsupported("`in` str with non-str", node)
            return "(str.contains %s %s)" % (cont.t, x.t)
        if k in ("map", "qmap"):
            return self.map_has(cont, x)
        if k == "vset":
            return self.vset_in(cont, x)
        if k == "set":
            et = cont.ty.args[0]
            return "(select %s %s)" % (cont.t, self.key_term(x, et))
        if k == "seq":
            et = cont.ty.args[0]
            if et == T.VAL:
                # list membership is by ==
                xv = self.box(x)
                return "(exists ((i Int)) (and (<= 0 i) (< i (seq.len %s)) (py_eq (seq.nth %s i) %s)))" % (cont.t, cont.t, xv.t)
            xv = self.coerce(x, et, "in list")
            return "(seq.contains %s (seq.unit %s))" % (cont.t, xv.t)
        if k == "ref":
            sc = self.schema_for(cont.ty.args[0])
            if sc is not None and sc.dict_of is not None:
                return self.map_has(self.dict_self(cont, st), x)
        if k == "opt":
            if st is not None and st.spec:
                inner = cont.ty.args[0]
                return self.contains(SV(S.the(inner, cont.t), inner), x, st, node)
            raise Unsupported("`in` on optional container", node)
        raise Unsupported("`in` on %r" % (cont.ty,), node)

    def ev_BinOp(self, e, st, k, ctl):
        def got(s, vs):
            a, b = vs
            return self.binop(e.op, a, b, s, k, ctl, e)
        return self.ev_list([e.left, e.right], st, got, ctl)

    def binop(self, op, a, b, st, k, ctl, node):
        if isinstance(op, ast.Add):
            if isinstance(a, SV) and isinstance(b, SV):
                if a.ty == T.STR and b.ty == T.STR:
                    return k(st, SV(self.concat([a.t, b.t]), T.STR))
                if a.ty == T.INT and b.ty == T.INT:
                    return k(st, SV("(+ %s %s)" % (a.t, b.t), T.INT))
                if a.ty.kind == "seq" and b.ty == a.ty:
                    return k(st, SV("(seq.++ %s %s)" % (a.t, b.t), a.ty))
            if isinstance(a, PyV) and isinstance(b, PyV) and a.kind == b.kind == "tuple":
                return k(st, PyV("tuple", list(a.data) + list(b.data), a.extra))
        if isinstance(op, ast.Sub) and isinstance(a, SV) and isinstance(b, SV):
            if a.ty == T.INT and b.ty == T.INT:
                return k(st, SV("(- %s %s)" % (a.t, b.t), T.INT))
        if isinstance(op, ast.Mult) and isinstance(a, SV) and isinstance(b, SV):
            if a.ty == T.INT and b.ty == T.INT:
                return k(st, SV("(* %s %s)" % (a.t, b.t), T.INT))
        if isinstance(op, ast.Mod) and isinstance(a, SV) and a.ty == T.STR:
            return self.bi.percent_format(a, b, st, k, ctl, node)
        if isinstance(op, ast.BitOr) and isinstance(a, SV) and a.ty.kind == "set" and b.ty == a.ty:
            et = self.cx.sorts.sort(a.ty.args[0])
            return k(st, SV("(lambda ((e %s)) (or (select %s e) (select %s e)))" % (et, a.t, b.t), a.ty))
        raise Unsupported("binary operator %s on %r, %r" % (type(op).__name__, a, b), node)

    # ---------------------------------------------------------------- subscript
    def ev_Subscript(self, e, st, k, ctl):
        if isinstance(e.slice, ast.Slice):
            return self.ev(e.value, st, lambda s, o: self.bi.slice(o, e.slice, s, k, ctl, e), ctl)

        def got(s, vs):
            o, i = vs
            return self.subscript(o, i, s, k, ctl, e)

        return self.ev_list([e.value, e.slice], st, got, ctl)

    def subscript(self, o, i, st, k, ctl, node):
        S = self.cx.sorts
        line = getattr(node, "lineno", "?")
        if isinstance(o, PyV):
            if o.kind == "tuple":
                if isinstance(i, SV) and i.ty == T.INT:
                    try:
                        idx = int(i.t) if not i.t.startswith("(-") else -int(i.t[3:-1])
                    except ValueError:
                        raise Unsupported("symbolic index into python tuple", node)
                    return k(st, o.data[idx])
            if o.kind == "cdict":
                # constant table lookup with a symbolic key
                return self.bi.table_lookup(o, i, st, k, ctl, node)
            raise Unsupported("subscript of %r" % (o,), node)
        ty = o.ty
        if ty.kind == "jrep":
            key = i.t.strip('"') if isinstance(i, SV) and i.ty == T.STR and i.t.startswith('"') else None
            if key == "$":
                if not st.spec:
                    self.cx.oblige("json-key-present@%s" % line, st, "((_ is JObj) %s)" % o.t, {"kind": "safety", "expr": ast.unparse(node)})
                return k(st, SV("(jdollar %s)" % o.t, T.VAL))
            if key in ("type", "lang"):
                present = AND("((_ is JObj) %s)" % o.t, NOT(S.is_none(T.STR, "(j%s %s)" % (key, o.t))))
                if not st.spec:
                    self.cx.oblige("json-key-present@%s" % line, st, present, {"kind": "safety", "expr": ast.unparse(node)})
                    st = st.assume(present)
                return k(st, SV(S.the(T.STR, "(j%s %s)" % (key, o.t)), T.STR))
            raise Unsupported("subscript of a JSON representation with a non-constant key", node)
        if ty.kind == "opt":
            inner = ty.args[0]
            if not st.spec:
                self.cx.oblige("none-safe@%s" % line, st, NOT(S.is_none(inner, o.t)),
                               {"kind": "safety", "expr": ast.unparse(node)})
                st = st.assume(NOT(S.is_none(inner, o.t)))
            return self.subscript(SV(S.the(inner, o.t), inner), i, st, k, ctl, node)
        if ty.kind in ("map", "qmap"):
            return self.map_subscript(o, i, st, k, ctl, node)
        if ty.kind == "ref":
            sc = self.schema_for(ty.args[0])
            if sc is not None and sc.dict_of is not None:
                return self.map_subscript(self.dict_self(o, st), i, st, k, ctl, node)
            ci = self.repo.classes.get(ty.args[0])
            fi = ci.lookup("__getitem__") if ci else None
            if fi is not None:
                return self.call_func(fi, [o, i], {}, st, k, ctl, node)
        if ty.kind == "Ns":
            fi = self.repo.classes["Namespace"].lookup("__getitem__")
            return self.call_func(fi, [o, i], {}, st, k, ctl, node)
        if ty.kind == "seq":
            et = ty.args[0]
            if i.ty != T.INT:
                raise Unsupported("non-int list index", node)
            idx = i.t
            if idx.startswith("(- "):
                idx = "(+ (seq.len %s) %s)" % (o.t, idx)
            if not st.spec:
                inb = AND("(<= 0 %s)" % idx, "(< %s (seq.len %s))" % (idx, o.t))
                self.cx.oblige("index-safe@%s" % line, st, inb, {"kind": "safety", "expr": ast.unparse(node)})
                st = st.assume(inb)
            return k(st, SV("(seq.nth %s %s)" % (o.t, idx), et))
        if ty.kind == "str":
            return k(st, SV("(str.at %s %s)" % (o.t, i.t), T.STR))
        if ty.kind == "tuple":
            try:
                idx = int(i.t)
            except ValueError:
                raise Unsupported("symbolic index into a tuple", node)
            name = S.sort(ty)
            return k(st, SV("(%s_%d %s)" % (name, idx, o.t), ty.args[idx]))
        raise Unsupported("subscript of %r" % (ty,), node)

    def map_subscript(self, m, i, st, k, ctl, node):
        line = getattr(node, "lineno", "?")
        vv = m.ty.args[-1]
        if not st.spec and not T.total_map_value(vv):
            has = self.map_has(m, i)
            if self.catches(ctl, "KeyError"):
                def missing(s):
                    return ctl.exc(s, ExcVal("KeyError", node=node))
                return self.fork(st, has, lambda s: k(s, self.map_get(m, i)), missing, "k")
            self.cx.oblige("key-present@%s" % line, st, has,
                           {"kind": "safety", "expr": ast.unparse(node)})
            st = st.assume(has)
        return k(st, self.map_get(m, i))

    def catches(self, ctl, excname):
        return ctl is not None and getattr(ctl.exc, "catches", None) is not None and ctl.exc.catches(excname)

    # ---------------------------------------------------------------- comprehensions
    def ev_ListComp(self, e, st, k, ctl):
        return self.bi.comprehension(e, st, k, ctl)

    def ev_GeneratorExp(self, e, st, k, ctl):
        return self.bi.comprehension(e, st, k, ctl)

    # ---------------------------------------------------------------- calls
    def ev_Call(self, e, st, k, ctl):
        if st.spec and isinstance(e.func, ast.Name) and e.func.id in ("old", "forall", "exists"):
            return self.spec_form(e, st, k, ctl)
        if st.spec and isinstance(e.func, ast.Name) and e.func.id in ("exists_in", "forall_in"):
            return self.spec_form_in(e, st, k, ctl)
        if any(isinstance(a, ast.Starred) for a in e.args) or any(kw.arg is None for kw in e.keywords):
            return self.bi.star_call(e, st, k, ctl)

        if (isinstance(e.func, ast.Attribute) and e.func.attr in MUTATORS and not st.spec):
            def got_recv(s, o):
                if (isinstance(o, SV) and o.ty.kind in ("map", "set", "seq", "vset", "qmap", "oset")) or (
                        isinstance(o, PyV) and o.kind == "tuple" and o.extra == "list" and e.func.attr in ("append", "extend")):
                    return self.ev_list(list(e.args), s,
                                        lambda s2, vs: self.bi.mutate(o, e.func.attr, vs, s2, e.func.value, k, ctl, e), ctl)
                if isinstance(o, SV) and o.ty.kind == "ref":
                    sc = self.schema_for(o.ty.args[0])
                    if sc is not None and sc.dict_of is not None and self.repo.classes[o.ty.args[0]].lookup(e.func.attr) is None:
                        m = self.dict_self(o, s)
                        def wb(s2, vs):
                            return self.bi.mutate_dict_self(o, m, e.func.attr, vs, s2, k, ctl, e)
                        return self.ev_list(list(e.args), s, wb, ctl)
                return self.getattr(o, e.func.attr, s, lambda s2, f: self.ev_list(
                    list(e.args) + [kw.value for kw in e.keywords], s2,
                    lambda s3, vs: self.call(f, vs[:len(e.args)], {kw.arg: v for kw, v in zip(e.keywords, vs[len(e.args):])}, s3, k, ctl, e), ctl), ctl, e)
            return self.ev(e.func.value, st, got_recv, ctl)

        def got_f(s, f):
            def got_args(s2, vs):
                n = len(e.args)
                args = vs[:n]
                kwargs = {kw.arg: v for kw, v in zip(e.keywords, vs[n:])}
                return self.call(f, args, kwargs, s2, k, ctl, e)
            return self.ev_list(list(e.args) + [kw.value for kw in e.keywords], s, got_args, ctl)

        return self.ev(e.func, st, got_f, ctl)

    def spec_form(self, e, st, k, ctl):
        name = e.func.id
        S = self.cx.sorts
        if name == "old":
            if st.old is None:
                raise Unsupported("old() outside a postcondition", e)
            # old(e): e evaluated over the pre-state *heap*; names denote the values they denote now
            so = st.old.copy(env=dict(st.env), spec=True, old=st.old, fn=st.fn)
            so.bound = st.bound
            v = self.spec_eval(e.args[0], so)
            return k(st, v)
        lam = e.args[0]
        if not isinstance(lam, ast.Lambda):
            raise Unsupported("forall/exists need a lambda", e)
        hint = [kw.value for kw in e.keywords if kw.arg == "hint"]
        if name == "exists" and hint and "$locals" in st.env:
            # goal position at the exit of the verified function: a witness taken from the function's
            # own locals proves the existential (sound: phi[w] implies exists x. phi)
            loc = st.env["$locals"]
            hn = [h.value for h in (hint[0].elts if isinstance(hint[0], ast.Tuple) else [hint[0]])]
            if all(h in loc and isinstance(loc[h], SV) for h in hn):
                from .spec import parse_type as _pt
                tys_ = [_pt(t.value) for t in e.args[1:]]
                env2 = dict(st.env)
                for a_, h, t_ in zip(lam.args.args, hn, tys_):
                    env2[a_.arg] = self.coerce(loc[h], t_, "witness")
                return k(st, SV(self.spec_bool(lam.body, st.copy(env=env2)), T.BOOL))
            missing = [h for h in hn if h not in loc]
            if missing:
                # the contract names a local of the function as witness and the function has no such local any
                # more (e.g. it was renamed): the contract is out of date - an engine error, never a verdict
                raise Unsupported("contract out of date: witness local %s not found in the function" % ", ".join(missing), e)
        from .spec import parse_type
        names = [a.arg for a in lam.args.args]
        tys = [parse_type(ast.unparse(t)) if not isinstance(t, ast.Constant) else parse_type(t.value)
               for t in e.args[1:]]
        if len(tys) != len(names):
            raise Unsupported("forall: one type per bound variable", e)
        env = dict(st.env)
        binders = []
        for n, t in zip(names, tys):
            bn = "%s_%d" % (n, next(self.cx.counter))
            env[n] = SV(bn, t)
            binders.append("(%s %s)" % (bn, S.sort(t)))
        s2 = st.copy(env=env)
        s2.bound = st.bound + tuple(names)
        body = self.spec_bool(lam.body, s2)
        q = "forall" if name == "forall" else "exists"
        if body in ("true", "false"):
            return k(st, SV(body, T.BOOL))
        return k(st, SV("(%s (%s) %s)" % (q, " ".join(binders), body), T.BOOL))

    def spec_form_in(self, e, st, k, ctl):
        """exists_in(seq, lambda p: body) / forall_in(seq, lambda p: body): bounded quantifier over the members
        of a list; a literal list is expanded to a finite disjunction / conjunction"""
        from .builtins import _units_of
        seq = self.spec_eval(e.args[0], st)
        lam = e.args[1]
        et = seq.ty.args[0]
        pname = lam.args.args[0].arg
        is_ex = e.func.id == "exists_in"
        units = _units_of(seq.t)
        if units is not None:
            parts = [self.spec_bool(lam.body, st.bind(pname, SV(u, et))) for u in units]
            return k(st, SV(OR(*parts) if is_ex else AND(*parts), T.BOOL))
        S = self.cx.sorts
        bn = "%s_%d" % (pname, next(self.cx.counter))
        s2 = st.bind(pname, SV(bn, et))
        s2.bound = st.bound + (pname,)
        body = self.spec_bool(lam.body, s2)
        mem = "(seq.contains %s (seq.unit %s))" % (seq.t, bn)
        if is_ex:
            return k(st, SV("(exists ((%s %s)) (and %s %s))" % (bn, S.sort(et), mem, body), T.BOOL))
        return k(st, SV("(forall ((%s %s)) (=> %s %s))" % (bn, S.sort(et), mem, body), T.BOOL))

    def call(self, f, args, kwargs, st, k, ctl, node):
        if isinstance(f, SV) and f.ty == T.CLS and not st.spec:
            # a class object computed at run time (e.g. looked up in a registry) is called: one case per class
            # of the package that the path condition allows (they must share one __init__, as construct_choice requires)
            from .calls import construct_choice
            items = []
            for cname, cid in sorted(self.cx.class_ids.items()):
                ci = self.repo.classes.get(cname)
                cond = "(= %s %d)" % (f.t, cid)
                if ci is not None and self.feasible(st, cond):
                    items.append((cond, ci))
            if not items:
                raise Unsupported("call of a class object that can be no class of the package", node)
            return construct_choice(self, items, args, kwargs, st.assume(OR(*[c_ for c_, _ in items])), k, ctl, node)
        if isinstance(f, PyV):
            kind = f.kind
            if kind == "func":
                return self.call_func(f.data, args, kwargs, st, k, ctl, node)
            if kind == "bound":
                return self.call_func(f.data, [f.extra] + list(args), kwargs, st, k, ctl, node)
            if kind == "class":
                return self.construct(f.data, args, kwargs, st, k, ctl, node)
            if kind == "dynmethod":
                for cond, sfi, ov in f.data:
                    if self.feasible(st, cond):
                        self.call_func(sfi, [ov] + list(args), kwargs, st.assume(cond).step("d"), k, ctl, node)
                return None
            if kind == "classchoice":
                from .calls import construct_choice
                return construct_choice(self, f.data, args, kwargs, st, k, ctl, node)
            if kind == "specfn":
                return self.call_specfn(f.data, args, kwargs, st, k, ctl, node)
            if kind == "specbuiltin":
                return k(st, self.bi.spec_builtin(f.data, args, kwargs, st, node))
            if kind == "builtin":
                return self.bi.builtin(f.data, args, kwargs, st, k, ctl, node)
            if kind in ("valmethod", "dictmethod", "pymethod"):
                return self.bi.method(f, args, kwargs, st, k, ctl, node)
            if kind == "extclass":
                nm = f.data.split(".")[-1]
                if is_exception_class(self.repo, nm) or nm in EXC_TREE:
                    return k(st, ExcVal(nm, args, node))
                return self.bi.external(f.data, args, kwargs, st, k, ctl, node)
            if kind == "extfunc":
                return self.bi.external(f.data, args, kwargs, st, k, ctl, node)
            if kind == "iterfn":
                return k(st, f.data(args))
            if kind == "closure":
                return self.call_func(f.data, args, kwargs, st, k, ctl, node)
            if kind == "lambda":
                lam = f.data
                env = dict(f.extra)
                for a, v in zip(lam.args.args, args):
                    env[a.arg] = v
                return self.ev(lam.body, st.copy(env={**st.env, **env}), lambda s, v: k(s.copy(env=st.env), v), ctl)
        raise Unsupported("call of %r" % (f,), node)

    def call_specfn(self, sf, args, kwargs, st, k, ctl, node):
        if not st.spec:
            raise Unsupported("specification function %s called from code" % sf.name, node)
        if len(args) != len(sf.params):
            raise Unsupported("spec %s: arity" % sf.name, node)
        if sf.opaque:
            return k(st, self.opaque_app(sf, args, st))
        env = {}
        for (pn, pt), a in zip(sf.params, args):
            env[pn] = self.coerce(a, pt, "argument %s of spec %s" % (pn, sf.name)) if isinstance(a, SV) else a
        s2 = st.copy(env=env)
        s2.bound = st.bound
        v = self.spec_body(sf.node.body, s2, sf)
        if isinstance(v, SV) and sf.ret != T.PYOBJ:
            v = self.coerce(v, sf.ret, "result of spec %s" % sf.name)
        if isinstance(v, SV) and v.ty == T.BOOL and len(v.t) > 60:
            from .core import Ctx as _Ctx
            for cj in _Ctx.conjuncts(v.t):
                if len(cj) > 60:
                    self.cx.term_tags.setdefault(cj, sf.name)
        return k(st, v)

    def opaque_app(self, sf, args, st):
        """application of an opaque specification function: an uninterpreted symbol; its defining axiom is
        stated only in units that reveal(...) it"""
        cx = self.cx
        S = cx.sorts
        avs = [self.coerce(a, pt, "argument of " + sf.name) for (pn, pt), a in zip(sf.params, args)]
        fn = "sp_" + sf.name
        if fn not in cx.funs_known:
            cx.funs_known.add(fn)
            cx.funs.append("(declare-fun %s (%s) %s)" % (fn, " ".join(S.sort(pt) for _, pt in sf.params), S.sort(sf.ret)))
            if sf.name in getattr(self, "reveals", ()):
                env = {}
                binders = []
                for pn, pt in sf.params:
                    bn = "%s_%d" % (pn, next(cx.counter))
                    env[pn] = SV(bn, pt)
                    binders.append("(%s %s)" % (bn, S.sort(pt)))
                s2 = State(env, {}, spec=True)
                s2.bound = tuple(pn for pn, _ in sf.params)
                body = self.spec_body(sf.node.body, s2, sf)
                body = self.coerce(body, sf.ret, "body of " + sf.name)
                cx.funs.append("(assert (forall (%s) (= (%s %s) %s)))" % (
                    " ".join(binders), fn, " ".join(env[pn].t for pn, _ in sf.params), body.t))
        app = "(%s %s)" % (fn, " ".join(a.t for a in avs))
        if sf.name in getattr(self, "reveals", ()) and not st.bound:
            # ground occurrence in a unit that may use the definition: state the instance directly
            done = cx.__dict__.setdefault("_ground_defs", set())
            if app not in done:
                done.add(app)
                env = {pn: a for (pn, pt), a in zip(sf.params, avs)}
                body = self.coerce(self.spec_body(sf.node.body, State(env, {}, spec=True), sf), sf.ret, "body of " + sf.name)
                cx.axioms.append("(= %s %s)" % (app, body.t))
        return SV(app, sf.ret)

    def spec_body(self, stmts, st, sf):
        """pure statements: assignments, if/return chains -> one value (ite)"""
        for i, s in enumerate(stmts):
            if isinstance(s, ast.Expr) and isinstance(s.value, ast.Constant):
                continue
            if isinstance(s, ast.Assign) and isinstance(s.targets[0], ast.Name):
                st = st.bind(s.targets[0].id, self.spec_eval(s.value, st))
                continue
            if isinstance(s, ast.Return):
                return self.spec_eval(s.value, st)
            if isinstance(s, ast.If):
                c = self.spec_bool(s.test, st)
                rest = list(stmts[i + 1:])
                if c == "true":
                    return self.spec_body(list(s.body) + rest, st, sf)
                if c == "false":
                    return self.spec_body(list(s.orelse) + rest, st, sf)
                a = self.spec_body(list(s.body) + rest, st, sf)
                b = self.spec_body(list(s.orelse) + rest, st, sf)
                a, b = self.unify(a, b)
                return SV(ITE(c, a.t, b.t), a.ty)
            raise Unsupported("statement in specification function %s" % sf.name, s)
        raise Unsupported("specification function %s does not return" % sf.name)

    # ---------------------------------------------------------------- tests
    def branch(self, e, st, kt, kf, ctl):
        """evaluate e as a condition and fork (with isinstance / None narrowing)"""
        if isinstance(e, ast.UnaryOp) and isinstance(e.op, ast.Not):
            return self.branch(e.operand, st, kf, kt, ctl)
        if isinstance(e, ast.BoolOp):
            vals = e.values
            if isinstance(e.op, ast.And):
                def go(i, s):
                    if i == len(vals):
                        return kt(s)
                    return self.branch(vals[i], s, lambda s2: go(i + 1, s2), kf, ctl)
                return go(0, st)
            else:
                def go(i, s):
                    if i == len(vals):
                        return kf(s)
                    return self.branch(vals[i], s, kt, lambda s2: go(i + 1, s2), ctl)
                return go(0, st)
        # isinstance(x, C) with narrowing
        if (isinstance(e, ast.Call) and isinstance(e.func, ast.Name) and e.func.id == "isinstance"
                and len(e.args) == 2 and "isinstance" not in st.env):
            def got(s, vs):
                v, c = vs
                names = self.class_names(c)
                t, narrow = self.isinstance_term(v, names)
                def yes(s2):
                    if narrow is not None and isinstance(e.args[0], ast.Name) and isinstance(v, SV):
                        nv = self.narrow_to(v, narrow)
                        s2 = s2.bind(e.args[0].id, nv)
                    return kt(s2)
                return self.fork(s, t, yes, kf, "i")
            return self.ev_list(e.args, st, got, ctl)
        # x is None / x is not None with narrowing
        if (isinstance(e, ast.Compare) and len(e.ops) == 1 and isinstance(e.ops[0], (ast.Is, ast.IsNot))
                and isinstance(e.comparators[0], ast.Constant) and e.comparators[0].value is None):
            def got(s, v):
                S = self.cx.sorts
                if isinstance(v, PyV):
                    t = "false"
                else:
                    t = self.is_identical(v, SV("none", T.NONE), s)
                def notnone(s2):
                    if isinstance(e.left, ast.Name) and isinstance(v, SV) and v.ty.kind == "opt":
                        inner = v.ty.args[0]
                        s2 = s2.bind(e.left.id, SV(S.the(inner, v.t), inner))
                    return s2
                if isinstance(e.ops[0], ast.Is):
                    return self.fork(s, t, kt, lambda s2: kf(notnone(s2)), "n")
                return self.fork(s, NOT(t), lambda s2: kt(notnone(s2)), kf, "n")
            return self.ev(e.left, st, got, ctl)

        def got(s, v):
            c = self.truthy(v, s)
            def yes(s2):
                if isinstance(e, ast.Name) and isinstance(v, SV) and v.ty.kind == "opt":
                    inner = v.ty.args[0]
                    s2 = s2.bind(e.id, SV(self.cx.sorts.the(inner, v.t), inner))
                return kt(s2)
            return self.fork(s, c, yes, kf, "c")
        return self.ev(e, st, got, ctl)

    def narrow_to(self, v, ty):
        if v.ty == T.VAL:
            return self.unbox(v, ty)
        if v.ty.kind == "ref" and ty.kind == "ref":
            return SV(v.t, ty)
        if v.ty.kind == "opt":
            return SV(self.cx.sorts.the(v.ty.args[0], v.t), v.ty.args[0])
        return v

    # ================================================================ statements
    def ex(self, stmts, st, k, ctl):
        if not stmts:
            return k(st)
        s0 = stmts[0]
        rest = stmts[1:]
        if st.path or self.cx.current_path is None:
            self.cx.current_path = "".join(st.path)
        m = getattr(self, "ex_" + type(s0).__name__, None)
        if m is None:
            raise Unsupported("statement " + type(s0).__name__, s0)
        c = getattr(self, "current_contract", None)
        if c is not None and c.asserts and not st.spec and st.fn is not None and not isinstance(s0, (ast.If, ast.For, ast.While, ast.Try)):
            key = " ".join(ast.unparse(s0).split())
            if key in c.asserts and self.repo.func(c.target.split("#")[0]) is st.fn:
                self.cx.__dict__.setdefault("assert_hits", set()).add(key)
                for name, e in c.asserts[key]:
                    ps = st.copy(spec=True, old=self.pre_state)
                    g = self.spec_bool(e, ps)
                    self.cx.oblige("%s/assert:%s@%s" % (".".join(c.target.split(".")[2:]), name, s0.lineno), st, g,
                                   {"kind": "assertion", "function": c.target})
                    st = st.assume(g)
        return m(s0, st, lambda s: self.ex(rest, s, k, ctl), ctl)

    def ex_Pass(self, s, st, k, ctl):
        return k(st)

    def ex_Expr(self, s, st, k, ctl):
        if isinstance(s.value, ast.Constant):
            return k(st)  # docstring
        if self.is_logging_call(s.value):
            return k(st)  # logger.* / warnings.warn: no effect on program state (A6)
        return self.ev(s.value, st, lambda s2, v: k(s2), ctl)

    def is_logging_call(self, e):
        if isinstance(e, ast.Call) and isinstance(e.func, ast.Attribute) and isinstance(e.func.value, ast.Name):
            if e.func.value.id in ("logger", "logging", "warnings"):
                return True
        return False

    def ex_Return(self, s, st, k, ctl):
        if s.value is None:
            return ctl.ret(st, SV("none", T.NONE))
        return self.ev(s.value, st, lambda s2, v: ctl.ret(s2, v), ctl)

    def ex_Raise(self, s, st, k, ctl):
        if s.exc is None:
            raise Unsupported("bare raise", s)

        def got(s2, v):
            if isinstance(v, PyV) and v.kind == "extclass":
                v = ExcVal(v.data.split(".")[-1], (), s)
            if isinstance(v, PyV) and v.kind == "class":
                v = ExcVal(v.data.name, (), s)
            if not isinstance(v, ExcVal):
                raise Unsupported("raise of non-exception", s)
            return ctl.exc(s2, v)

        return self.ev(s.exc, st, got, ctl)

    def ex_If(self, s, st, k, ctl):
        return self.branch(
            s.test,
            st,
            lambda s2: self.ex(s.body, s2, lambda s3: k(self.leave_scope(s3, st)), ctl),
            lambda s2: self.ex(s.orelse, s2, lambda s3: k(self.leave_scope(s3, st)), ctl),
            ctl,
        )

    def leave_scope(self, s_after, s_before):
        """narrowing made by a test does not outlive the if-statement for names that were
        not assigned inside it (their binding object is unchanged)"""
        return s_after

    def ex_Assign(self, s, st, k, ctl):
        def got(s2, v):
            def assign_all(i, s3):
                if i == len(s.targets):
                    return k(s3)
                return self.assign(s.targets[i], v, s3, lambda s4: assign_all(i + 1, s4), ctl)
            return assign_all(0, s2)
        return self.ev(s.value, st, got, ctl)

    def ex_AnnAssign(self, s, st, k, ctl):
        if s.value is None:
            return k(st)
        return self.ev(s.value, st, lambda s2, v: self.assign(s.target, v, s2, k, ctl), ctl)

    def ex_AugAssign(self, s, st, k, ctl):
        load = ast.copy_location(ast.fix_missing_locations(_as_load(s.target)), s)

        def got(s2, vs):
            a, b = vs
            return self.binop(s.op, a, b, s2, lambda s3, v: self.assign(s.target, v, s3, k, ctl), ctl, s)

        return self.ev_list([load, s.value], st, got, ctl)

    def assign(self, target, v, st, k, ctl):
        if isinstance(target, ast.Name):
            if isinstance(v, SV) and len(v.t) > 400 and not st.spec and v.ty.kind not in ("none", "tuple"):
                st, t = self.name_term(st, v.t, self.cx.sorts.sort(v.ty), "l_" + target.id)
                v = SV(t, v.ty)
            return k(st.bind(target.id, v))
        if isinstance(target, (ast.Tuple, ast.List)):
            items = self.bi.unpack(v, len(target.elts), st, target)
            if items is None:
                return ctl.exc(st, ExcVal("ValueError", node=target))
            def go(i, s):
                if i == len(items):
                    return k(s)
                return self.assign(target.elts[i], items[i], s, lambda s2: go(i + 1, s2), ctl)
            return go(0, st)
        if isinstance(target, ast.Attribute):
            def got(s, o):
                if isinstance(o, PyV) and o.kind == "newobj":
                    f = dict(s.env.get("$newobj", {}))
                    f[target.attr] = v
                    return k(s.bind("$newobj", f))
                if isinstance(o, SV) and o.ty.kind == "ref":
                    return k(self.field_write(o, target.attr, v, s))
                raise Unsupported("attribute store on %r" % (o,), target)
            return self.ev(target.value, st, got, ctl)
        if isinstance(target, ast.Subscript):
            def got(s, vs):
                o, i = vs
                return self.store_subscript(target, o, i, v, s, k, ctl)
            return self.ev_list([target.value, target.slice], st, got, ctl)
        raise Unsupported("assignment target", target)

    def store_subscript(self, target, o, i, v, st, k, ctl):
        """o[i] = v where o came from evaluating target.value: write back along the access path"""
        if isinstance(o, SV) and o.ty.kind == "ref":
            sc = self.schema_for(o.ty.args[0])
            if sc is not None and sc.dict_of is not None:
                m = self.dict_self(o, st)
                return k(self.dict_self_write(o, self.map_put(m, i, v), st))
        if isinstance(o, SV) and o.ty.kind in ("map", "qmap"):
            if o.ty.kind == "qmap" and isinstance(i, SV) and i.ty.kind == "opt" and i.ty.args[0] == T.QN:
                # a None key would be stored as such by the real dict: the index is for qualified names only
                S = self.cx.sorts
                nn = NOT(S.is_none(T.QN, i.t))
                if not st.spec:
                    self.cx.oblige("key-is-a-name@%s" % getattr(target, "lineno", "?"), st, nn,
                                   {"kind": "safety", "expr": ast.unparse(target)})
                    st = st.assume(nn)
                i = SV(S.the(T.QN, i.t), T.QN)
            newm = self.map_put(o, i, v)
            return self.write_back(target.value, newm, st, k, ctl)
        raise Unsupported("subscript store on %r" % (o,), target)

    def write_back(self, place, newval, st, k, ctl):
        """store a new container value at the l-value `place` (owned containers have value semantics)"""
        if isinstance(place, ast.Name):
            return k(st.bind(place.id, newval))
        if isinstance(place, ast.Attribute):
            def got(s, o):
                if isinstance(o, PyV) and o.kind == "newobj":
                    f = dict(s.env.get("$newobj", {}))
                    f[place.attr] = newval
                    return k(s.bind("$newobj", f))
                if isinstance(o, SV) and o.ty == T.NS and place.attr == "_cache":
                    coh = "(forall ((l String)) (=> (not (= (select %s l) none_QN)) (= (the_QN (select %s l)) (mkQN %s l))))" % (newval.t, newval.t, o.t)
                    self.cx.oblige("cache-coherent@%s" % place.lineno, s, coh, {"kind": "invariant"})
                    return k(s.bind("$cache:" + o.t, newval))
                return k(self.field_write(o, place.attr, newval, s))
            return self.ev(place.value, st, got, ctl)
        if isinstance(place, ast.Subscript):
            def got(s, vs):
                o, i = vs
                return self.store_subscript(place, o, i, newval, s, k, ctl)
            return self.ev_list([place.value, place.slice], st, got, ctl)
        raise Unsupported("container mutation through " + ast.unparse(place), place)

    def ex_Delete(self, s, st, k, ctl):
        raise Unsupported("del", s)

    def ex_Try(self, s, st, k, ctl):
        if s.finalbody:
            raise Unsupported("try/finally", s)
        handlers = s.handlers

        def handler_names(h):
            if h.type is None:
                return ["BaseException"]
            if isinstance(h.type, ast.Tuple):
                return [ast.unparse(x).split(".")[-1] for x in h.type.elts]
            return [ast.unparse(h.type).split(".")[-1]]

        def on_exc(s2, exc):
            for h in handlers:
                for hn in handler_names(h):
                    if exc_is_subclass(self.repo, exc.cls, hn):
                        s3 = s2.bind(h.name, exc) if h.name else s2
                        return self.ex(h.body, s3, k, ctl)
            return ctl.exc(s2, exc)

        def catches(name):
            for h in handlers:
                for hn in handler_names(h):
                    if exc_is_subclass(self.repo, name, hn):
                        return True
            outer = getattr(ctl.exc, "catches", None)
            return outer(name) if outer else False

        on_exc.catches = catches
        inner = ctl._replace(exc=on_exc)
        return self.ex(s.body, st, lambda s2: self.ex(s.orelse, s2, k, ctl), inner)

    def ex_FunctionDef(self, s, st, k, ctl):
        q = "%s.<locals>.%s" % (st.fn.qualname, s.name)
        fi = self.repo.funcs.get(q)
        if fi is None:
            raise Unsupported("nested function not indexed: " + q, s)
        return k(st.bind(s.name, PyV("closure", fi, None)))

    def ex_Break(self, s, st, k, ctl):
        return ctl.brk(st)

    def ex_Continue(self, s, st, k, ctl):
        return ctl.cont(st)

    def ex_For(self, s, st, k, ctl):
        from .loops import exec_for
        return exec_for(self, s, st, k, ctl)

    def ex_While(self, s, st, k, ctl):
        from .loops import exec_while
        return exec_while(self, s, st, k, ctl)

    def ex_With(self, s, st, k, ctl):
        # only `with <expr> as <name>:` where <expr> is a stream (Handle): __enter__ returns the stream itself,
        # __exit__ closes it (buffering is not modelled, so close is a no-op) and never swallows an exception,
        # so the body runs with the name bound and every exit - normal, return, exceptional - passes through unchanged
        if len(s.items) != 1 or s.items[0].optional_vars is None or not isinstance(s.items[0].optional_vars, ast.Name):
            raise Unsupported("with (other than `with <stream> as <name>`)", s)
        name = s.items[0].optional_vars.id

        def got(s2, v):
            if not (isinstance(v, SV) and v.ty.kind == "handle"):
                raise Unsupported("with over a context manager that is not a stream", s)
            return self.ex(s.body, s2.bind(name, v), k, ctl)
        return self.ev(s.items[0].context_expr, st, got, ctl)

    def ex_Assert(self, s, st, k, ctl):
        raise Unsupported("assert", s)

    # ================================================================ calls of repository functions
    def call_func(self, fi, args, kwargs, st, k, ctl, node):
        from .calls import call_function
        return call_function(self, fi, args, kwargs, st, k, ctl, node)

    def allocate(self, r, clsname, st):
        """fresh object: not allocated before, of exactly this class"""
        key = ("$", "alloc")
        arr = st.heap.get(key)
        if arr is None:
            if "alloc@0" not in self.cx.funs_known:
                self.cx.funs_known.add("alloc@0")
                self.cx.consts.append(("alloc@0", "(Array Int Bool)"))
            arr = "alloc@0"
        st = st.assume(NOT("(select %s %s)" % (arr, r.t)), self.cls_exact(r.t, clsname))
        return st.with_heap(key, "(store %s %s true)" % (arr, r.t))

    def construct(self, ci, args, kwargs, st, k, ctl, node):
        from .calls import construct
        return construct(self, ci, args, kwargs, st, k, ctl, node)


def _as_load(t):
    t2 = ast.parse(ast.unparse(t), mode="eval").body
    return t2
