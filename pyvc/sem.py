"""Pure semantic helpers: truthiness, equality, coercion, constants, isinstance (DESIGN 2.3)."""
import re

from . import ty as T
from .core import SV, PyV, Unsupported
from .smt import AND, OR, NOT, ITE, EQ, IMPLIES, slit, ilit


class Sem:
    """mixin; expects self.cx (Ctx)"""

    # ---------------------------------------------------------------- constants
    def const(self, enc):
        k = enc["k"]
        if k == "none":
            return SV("none", T.NONE)
        if k == "bool":
            return SV("true" if enc["v"] else "false", T.BOOL)
        if k == "int":
            return SV(ilit(enc["v"]), T.INT)
        if k == "str":
            return SV(slit(enc["v"]), T.STR)
        if k == "Ns":
            return SV("(mkNs %s %s)" % (slit(enc["prefix"]), slit(enc["uri"])), T.NS)
        if k == "QN":
            return SV(
                "(mkQN (mkNs %s %s) %s)"
                % (slit(enc["prefix"]), slit(enc["nsuri"]), slit(enc["local"])),
                T.QN,
            )
        if k == "Ident":
            return SV(slit(enc["uri"]), T.IDENT)
        if k in ("tuple", "list"):
            return PyV("tuple", [self.const(x) for x in enc["v"]])
        if k == "set":
            return PyV("cset", [self.const(x) for x in enc["v"]])
        if k == "dict":
            return PyV("cdict", [(self.const(a), self.const(b)) for a, b in enc["v"]])
        if k == "class":
            nm = enc["name"].split(".")[-1]
            if nm in self.cx.repo.classes and enc["module"].startswith("prov"):
                return PyV("class", self.cx.repo.classes[nm])
            if enc["module"] == "builtins" and not nm.endswith("Error") and nm not in ("Exception", "Warning"):
                return PyV("builtin", nm)
            return PyV("extclass", enc["module"] + "." + enc["name"])
        if k == "func":
            q = "%s.%s" % (enc["module"], enc["name"])
            if q in self.cx.repo.funcs:
                return PyV("func", self.cx.repo.funcs[q])
            return PyV("extfunc", q)
        if k == "module":
            return PyV("module", enc["name"])
        if k == "float":
            return SV(self.float_const(enc["v"]), T.FLT)
        return PyV("opaque", enc)

    def float_const(self, r):
        name = "fltc_" + r.replace(".", "_").replace("-", "m").replace("+", "p")
        if name not in self.cx.funs_known:
            self.cx.funs_known.add(name)
            self.cx.funs.append("(declare-const %s Flt)" % name)
        return name

    def pyconst(self, v):
        if v is None:
            return SV("none", T.NONE)
        if isinstance(v, bool):
            return SV("true" if v else "false", T.BOOL)
        if isinstance(v, int):
            return SV(ilit(v), T.INT)
        if isinstance(v, str):
            return SV(slit(v), T.STR)
        if isinstance(v, float):
            return SV(self.float_const(repr(v)), T.FLT)
        raise Unsupported("constant %r" % (v,))

    # ---------------------------------------------------------------- boxing
    def box(self, v):
        """SV of any first-order type -> Val"""
        S = self.cx.sorts
        k = v.ty.kind
        if k == "Val":
            return v
        if k == "none":
            return SV("VNone", T.VAL)
        if k == "bool":
            return SV("(VBool %s)" % v.t, T.VAL)
        if k == "int":
            return SV("(VInt %s)" % v.t, T.VAL)
        if k == "str":
            return SV("(VStr %s)" % v.t, T.VAL)
        if k == "Flt":
            return SV("(VFloat %s)" % v.t, T.VAL)
        if k == "DT":
            return SV("(VDT %s)" % v.t, T.VAL)
        if k == "Ident":
            return SV("(VIdent %s)" % v.t, T.VAL)
        if k == "QN":
            return SV("(VQN %s)" % v.t, T.VAL)
        if k == "Lit":
            return SV("(VLit %s)" % v.t, T.VAL)
        if k == "ref":
            return SV("(VRef %s)" % v.t, T.VAL)
        if k == "opt":
            inner = v.ty.args[0]
            return SV(
                ITE(
                    S.is_none(inner, v.t),
                    "VNone",
                    self.box(SV(S.the(inner, v.t), inner)).t,
                ),
                T.VAL,
            )
        raise Unsupported("cannot box %r into Val" % (v.ty,))

    def unbox(self, v, ty):
        k = ty.kind
        sel = {
            "bool": "vbool",
            "int": "vint",
            "str": "vstr",
            "Flt": "vfloat",
            "DT": "vdt",
            "Ident": "vident",
            "QN": "vqn",
            "Lit": "vlit",
            "ref": "vref",
        }
        if k in sel:
            return SV("(%s %s)" % (sel[k], v.t), ty)
        raise Unsupported("cannot unbox Val to %r" % (ty,))

    def coerce(self, v, ty, what=""):
        """adapt a value to a declared type (assignment to a typed field / parameter / result)"""
        S = self.cx.sorts
        if isinstance(v, PyV):
            if ty == T.PYOBJ:
                return v
            raise Unsupported("python-level value %r where %r expected %s" % (v, ty, what))
        if v.ty == ty:
            return v
        if ty.kind == "opt":
            inner = ty.args[0]
            if v.ty == T.NONE:
                return SV(S.none(inner), ty)
            if v.ty.kind == "opt":
                raise Unsupported("coerce %r to %r %s" % (v.ty, ty, what))
            return SV(S.some(inner, self.coerce(v, inner, what).t), ty)
        if v.ty == T.JREP and ty == T.VAL:
            # a representation used as a value: the plain scalar it carries (the object case is excluded by the
            # branch condition isinstance(x, dict) on the path)
            return SV("(jplain %s)" % v.t, T.VAL)
        if ty == T.JREP:
            # a plain JSON scalar
            S.sort(T.JREP)
            return SV("(JPlain %s)" % self.box(v).t, T.JREP)
        if ty == T.VAL:
            return self.box(v)
        if v.ty == T.VAL:
            return self.unbox(v, ty)
        if v.ty.kind == "opt" and ty.kind != "opt":
            inner = v.ty.args[0]
            return self.coerce(SV(S.the(inner, v.t), inner), ty, what)
        if ty == T.IDENT and v.ty == T.QN:
            # a QualifiedName used where only its URI matters
            return SV("(qn_uri %s)" % v.t, T.IDENT)
        if ty.kind == "ref" and v.ty.kind == "ref":
            return SV(v.t, ty)
        if ty.kind == "tuple" and v.ty.kind == "tuple" and len(ty.args) == len(v.ty.args):
            src = S.sort(v.ty)
            dst = S.sort(ty)
            comps = [self.coerce(SV("(%s_%d %s)" % (src, i, v.t), a), b, what).t for i, (a, b) in enumerate(zip(v.ty.args, ty.args))]
            return SV("(mk_%s %s)" % (dst, " ".join(comps)), ty)
        if ty == T.PYOBJ:
            return v
        raise Unsupported("cannot coerce %r to %r %s" % (v.ty, ty, what))

    # ---------------------------------------------------------------- truthiness
    def truthy(self, v, st=None):
        S = self.cx.sorts
        if isinstance(v, PyV):
            if v.kind in ("tuple", "cset", "cdict"):
                return "true" if v.data else "false"
            return "true"
        k = v.ty.kind
        if k == "bool":
            return v.t
        if k == "none":
            return "false"
        if k == "str":
            return NOT(EQ(v.t, '""'))
        if k == "int":
            return NOT(EQ(v.t, "0"))
        if k in ("Ns", "QN", "Ident", "Lit", "DT", "cls"):
            return "true"
        if k == "Flt":
            return NOT("(flt_is_zero %s)" % v.t)
        if k == "opt":
            inner = v.ty.args[0]
            return AND(
                NOT(S.is_none(inner, v.t)), self.truthy(SV(S.the(inner, v.t), inner), st)
            )
        if k == "Val":
            self.need_fun("py_truthy")
            return "(py_truthy %s)" % v.t
        if k == "seq":
            return "(> (seq.len %s) 0)" % v.t
        if k == "vset":
            return "(> (vs_n %s) 0)" % v.t
        if k == "set":
            return "(exists ((e %s)) (select %s e))" % (S.sort(v.ty.args[0]), v.t)
        if k == "map":
            return self.map_nonempty(v)
        if k == "qmap":
            vv = v.ty.args[0]
            mk, tab, keyf = T.qm_names(vv)
            return "(exists ((u String)) %s)" % self.cell_present("(select (%s %s) u)" % (tab, v.t), vv)
        if k == "ref":
            cls = v.ty.args[0]
            sc = self.schema_for(cls)
            if sc is not None and sc.dict_of is not None and st is not None:
                m = self.dict_self(v, st)
                return self.map_nonempty(m)
            ci = self.cx.repo.classes.get(cls)
            if ci is not None and (ci.lookup("__len__") or ci.lookup("__bool__")):
                raise Unsupported("truthiness of %s (defines __len__/__bool__)" % cls)
            return "true"
        raise Unsupported("truthiness of %r" % (v.ty,))

    def map_nonempty(self, m):
        S = self.cx.sorts
        kk, vv = m.ty.args
        if T.total_map_value(vv):
            raise Unsupported("truthiness of total map")
        return "(exists ((k %s)) (not (= (select %s k) %s)))" % (
            S.sort(kk),
            m.t,
            S.none(vv),
        )

    # ---------------------------------------------------------------- equality (python ==)
    def py_eq(self, a, b, st=None):
        S = self.cx.sorts
        if isinstance(a, PyV) or isinstance(b, PyV):
            if isinstance(a, PyV) and isinstance(b, PyV):
                if a.kind == b.kind == "tuple":
                    if len(a.data) != len(b.data):
                        return "false"
                    return AND(*[self.py_eq(x, y, st) for x, y in zip(a.data, b.data)])
                if a.kind == b.kind and a.kind in ("class", "func"):
                    return "true" if a.data is b.data else "false"
                # type(x) compared with a builtin class (key of a table such as {float: ..., int: ...}):
                # the exact-type test on the universal value (type(True) is bool, not int)
                if "typeof" in (a.kind, b.kind) and ({a.kind, b.kind} - {"typeof"}) <= {"extclass", "builtin"} and a.kind != b.kind:
                    tv, cl = (a, b) if a.kind == "typeof" else (b, a)
                    ctor = {"builtins.float": "VFloat", "builtins.int": "VInt", "builtins.bool": "VBool", "builtins.str": "VStr",
                            "float": "VFloat", "int": "VInt", "bool": "VBool", "str": "VStr"}.get(cl.data)
                    v = tv.data
                    if ctor is not None and isinstance(v, SV):
                        return "((_ is %s) %s)" % (ctor, self.box(v).t)
            raise Unsupported("== on python-level values %r %r" % (a, b))
        ka, kb = a.ty.kind, b.ty.kind
        if ka == "none" and kb == "none":
            return "true"
        if ka == "opt" or kb == "opt":
            if ka == "opt" and kb == "opt":
                ia, ib = a.ty.args[0], b.ty.args[0]
                return OR(
                    AND(S.is_none(ia, a.t), S.is_none(ib, b.t)),
                    AND(
                        NOT(S.is_none(ia, a.t)),
                        NOT(S.is_none(ib, b.t)),
                        self.py_eq(SV(S.the(ia, a.t), ia), SV(S.the(ib, b.t), ib), st),
                    ),
                )
            if ka != "opt":
                a, b, ka, kb = b, a, kb, ka
            ia = a.ty.args[0]
            if kb == "none":
                return S.is_none(ia, a.t)
            return AND(NOT(S.is_none(ia, a.t)), self.py_eq(SV(S.the(ia, a.t), ia), b, st))
        if ka == "none" or kb == "none":
            other = b if ka == "none" else a
            if other.ty == T.VAL:
                return "((_ is VNone) %s)" % other.t
            return "false"
        if ka == "Val" or kb == "Val":
            self.need_fun("py_eq")
            return "(py_eq %s %s)" % (self.box(a).t, self.box(b).t)
        if ka == kb and ka in ("str", "int", "bool"):
            return EQ(a.t, b.t)
        if {ka, kb} <= {"int", "bool"}:
            ai = a.t if ka == "int" else "(int_of_bool %s)" % a.t
            bi = b.t if kb == "int" else "(int_of_bool %s)" % b.t
            return EQ(ai, bi)
        if ka == kb == "Ns":
            self.cx.deps.add("eqmodel:Namespace.__eq__")
            return EQ(a.t, b.t)
        if {ka, kb} <= {"QN", "Ident"}:
            self.cx.deps.add("eqmodel:Identifier.__eq__")
            return EQ(self.uri_of(a), self.uri_of(b))
        if ka == kb == "Lit":
            self.cx.deps.add("eqmodel:Literal.__eq__")
            self.need_fun("lit_eq")
            return "(lit_eq %s %s)" % (a.t, b.t)
        if ka == kb == "DT":
            return "(dt_eq %s %s)" % (a.t, b.t)
        if ka == kb == "Flt":
            return "(flt_eq %s %s)" % (a.t, b.t)
        if ka == kb == "ref":
            ca = self.cx.repo.classes.get(a.ty.args[0])
            if st is not None and st.spec:
                return EQ(a.t, b.t)  # in specifications == on object references is identity
            if ca is not None and ca.lookup("__eq__") is not None:
                hook = getattr(self, "ref_eq_hook", None)
                if hook:
                    return hook(a, b, st)
                raise Unsupported("== on %s needs its __eq__ contract" % a.ty.args[0])
            return EQ(a.t, b.t)
        if ka == kb == "tuple":
            raise Unsupported("tuple sort equality")
        if ka == kb and ka in ("set", "map", "seq"):
            return EQ(a.t, b.t)
        if ka == kb == "oset":
            return EQ("(os_has %s)" % a.t, "(os_has %s)" % b.t)
        if ka == kb == "vset":
            # python set equality: same elements modulo ==/hash
            return EQ("(vs_has %s)" % a.t, "(vs_has %s)" % b.t)
        if ka != kb:
            # unrelated builtin / library kinds never compare equal
            scalar = {"str", "int", "bool", "Ns", "QN", "Ident", "Lit", "DT", "Flt", "ref"}
            if ka in scalar and kb in scalar:
                if {ka, kb} == {"Flt", "int"} or {ka, kb} == {"Flt", "bool"}:
                    raise Unsupported("float/int comparison")
                return "false"
        if {ka, kb} <= {"cls", "int"}:
            return EQ(a.t, b.t)           # a class object against a class id of the table
        raise Unsupported("== between %r and %r" % (a.ty, b.ty))

    _CONSTQN = re.compile(r'^\(mkQN \(mkNs ("(?:[^"]|"")*") ("(?:[^"]|"")*")\) ("(?:[^"]|"")*")\)$')

    def qn_uri_term(self, t):
        """(qn_uri t), with the URI of a constant qualified name folded into one string literal"""
        m = self._CONSTQN.match(t)
        if m:
            return '"' + m.group(2)[1:-1] + m.group(3)[1:-1] + '"'
        return "(qn_uri %s)" % t

    def uri_of(self, v):
        if v.ty == T.QN:
            return self.qn_uri_term(v.t)
        if v.ty == T.IDENT:
            return v.t
        raise Unsupported("uri of %r" % (v.ty,))

    # ---------------------------------------------------------------- defined functions
    FUNS = {
        "lit_eq": (
            [],
            """(define-fun lit_eq ((a Lit) (b Lit)) Bool (and (= (lit_value a) (lit_value b))
   (= (lit_lang a) (lit_lang b))
   (or (and ((_ is none_QN) (lit_dt a)) ((_ is none_QN) (lit_dt b)))
       (and ((_ is some_QN) (lit_dt a)) ((_ is some_QN) (lit_dt b))
            (= (qn_uri (the_QN (lit_dt a))) (qn_uri (the_QN (lit_dt b))))))))""",
        ),
        "py_truthy": (
            [],
            """(define-fun py_truthy ((v Val)) Bool (ite ((_ is VNone) v) false (ite ((_ is VBool) v) (vbool v)
   (ite ((_ is VInt) v) (not (= (vint v) 0)) (ite ((_ is VStr) v) (not (= (vstr v) ""))
   (ite ((_ is VFloat) v) (not (flt_is_zero (vfloat v))) (ite ((_ is VOther) v) (other_truthy (vother v)) true)))))))""",
        ),
        "other_truthy": ([], "(declare-fun other_truthy (Int) Bool)"),
        "num_key": (
            [],
            # numeric tower: bool/int/float compare through one key; floats stay abstract
            """(define-fun is_num ((v Val)) Bool (or ((_ is VBool) v) ((_ is VInt) v) ((_ is VFloat) v)))
(define-fun num_flt ((v Val)) Flt (ite ((_ is VBool) v) (flt_of_int (int_of_bool (vbool v)))
   (ite ((_ is VInt) v) (flt_of_int (vint v)) (vfloat v))))""",
        ),
        "py_str": (
            [],
            """(declare-fun ref_str (Int) String)
(declare-fun other_str (Int) String)
(declare-fun lit_provn (Lit) String)
(define-fun int_str ((i Int)) String (ite (>= i 0) (str.from_int i) (str.++ "-" (str.from_int (- i)))))
(define-fun py_str ((v Val)) String
  (ite ((_ is VNone) v) "None" (ite ((_ is VBool) v) (ite (vbool v) "True" "False")
  (ite ((_ is VInt) v) (int_str (vint v)) (ite ((_ is VStr) v) (vstr v)
  (ite ((_ is VFloat) v) (flt_repr (vfloat v)) (ite ((_ is VDT) v) (dt_str (vdt v))
  (ite ((_ is VIdent) v) (vident v) (ite ((_ is VQN) v) (qn_str (vqn v))
  (ite ((_ is VLit) v) (lit_provn (vlit v)) (ite ((_ is VRef) v) (ref_str (vref v)) (other_str (vother v)))))))))))))""",
        ),
        "int_str": ([], None),
    }

    def need_fun(self, name):
        cx = self.cx
        if name in cx.funs_known:
            return
        if name == "int_str":
            name = "py_str"
            if name in cx.funs_known:
                return
        if name == "py_truthy":
            self.need_fun("other_truthy")
        deps, text = self.FUNS[name]
        for d in deps:
            self.need_fun(d)
        cx.funs_known.add(name)
        if name == "py_str":
            cx.funs_known.add("int_str")
        cx.funs.append(text)

    def need_canon_in(self):
        """canon_in(l, u, c): the list l of (name, value) pairs has a pair with name URI u and value key c.
        Opaque except in units that `reveal("canon_in")` (keeps the exists out of every other query)."""
        cx = self.cx
        if "canon_in" in cx.funs_known:
            return
        cx.funs_known.add("canon_in")
        tn = cx.sorts.sort(T.Tup(T.VAL, T.VAL))
        cx.sorts.sort(T.Tup(T.STR, T.VAL))
        cx.funs.append("(declare-fun canon_in ((Seq %s) String Val) Bool)" % tn)
        if "canon_in" in getattr(self, "reveals", ()):
            cx.funs.append(
                "(assert (forall ((l (Seq %s)) (u String) (c Val)) (= (canon_in l u c) (exists ((a QN) (v Val)) "
                "(and (seq.contains l (seq.unit (mk_%s (VQN a) v))) (= (qn_uri a) u) (= (ck v) c))))))" % (tn, tn))

    # ---------------------------------------------------------------- str()
    def py_str(self, v):
        if isinstance(v, PyV):
            raise Unsupported("str() of python-level value")
        k = v.ty.kind
        if k == "str":
            return v.t
        if k == "int":
            self.need_fun("py_str")
            return "(int_str %s)" % v.t
        if k == "bool":
            return ITE(v.t, '"True"', '"False"')
        if k == "QN":
            return "(qn_str %s)" % v.t
        if k == "Ident":
            return v.t
        if k == "none":
            return '"None"'
        if k == "DT":
            return "(dt_str %s)" % v.t
        if k == "Flt":
            return "(flt_repr %s)" % v.t
        if k == "Lit":
            self.need_fun("py_str")
            return "(lit_provn %s)" % v.t
        if k == "Val":
            self.need_fun("py_str")
            return "(py_str %s)" % v.t
        if k == "ref":
            # str(object): its __str__ (PROV-N text of a record); only its value is used (error messages)
            self.need_fun("py_str")
            return "(ref_str %s)" % v.t
        if k == "opt":
            S = self.cx.sorts
            inner = v.ty.args[0]
            return ITE(S.is_none(inner, v.t), '"None"', self.py_str(SV(S.the(inner, v.t), inner)))
        raise Unsupported("str() of %r" % (v.ty,))

    # ---------------------------------------------------------------- isinstance
    VAL_TESTS = {
        "str": ["VStr"],
        "QualifiedName": ["VQN"],
        "Identifier": ["VIdent", "VQN"],
        "Literal": ["VLit"],
        "datetime": ["VDT"],
        "bool": ["VBool"],
        "int": ["VInt", "VBool"],
        "float": ["VFloat"],
        "NoneType": ["VNone"],
    }
    STATIC_KINDS = {
        "str": {"str"},
        "QualifiedName": {"QN"},
        "Identifier": {"QN", "Ident"},
        "Literal": {"Lit"},
        "datetime": {"DT"},
        "bool": {"bool"},
        "int": {"int", "bool"},
        "float": {"Flt"},
        "Namespace": {"Ns"},
        "dict": {"map"},
        "list": {"seq"},
        "set": {"set"},
        "tuple": {"tuple"},
    }
    NARROW = {
        "str": T.STR,
        "QualifiedName": T.QN,
        "Literal": T.LIT,
        "datetime": T.DT,
        "bool": T.BOOL,
        "float": T.FLT,
    }

    def need_subclass_fn(self):
        cx = self.cx
        if "subclass_id" in cx.funs_known:
            return
        cx.funs_known.add("subclass_id")
        pairs = []
        for c in cx.repo.classes.values():
            for b in c.mro:
                if hasattr(b, "name"):
                    pairs.append("(and (= c %d) (= b %d))" % (cx.class_ids[c.name], cx.class_ids[b.name]))
        cx.funs.append("(define-fun subclass_id ((c Int) (b Int)) Bool (or %s))" % " ".join(pairs))

    def class_names(self, clsval):
        """python-level class spec (class, tuple of classes) -> list of simple names"""
        if isinstance(clsval, PyV):
            if clsval.kind == "class":
                return [clsval.data.name]
            if clsval.kind == "extclass":
                return [clsval.data.split(".")[-1]]
            if clsval.kind == "builtin":
                return [clsval.data]
            if clsval.kind == "tuple":
                out = []
                for x in clsval.data:
                    out.extend(self.class_names(x))
                return out
        raise Unsupported("isinstance with non-constant class %r" % (clsval,))

    def isinstance_sym(self, v, clssv):
        """isinstance(v, C) for a symbolic class object C of the package"""
        self.need_subclass_fn()
        if isinstance(v, SV) and v.ty.kind == "ref":
            return "(subclass_id (clsof %s) %s)" % (v.t, clssv.t)
        if isinstance(v, SV) and v.ty == T.VAL:
            return AND("((_ is VRef) %s)" % v.t, "(subclass_id (clsof (vref %s)) %s)" % (v.t, clssv.t))
        return "false"

    def isinstance_term(self, v, names):
        """returns (term, narrowed_type_or_None)"""
        S = self.cx.sorts
        if isinstance(v, PyV):
            if v.kind in ("tuple",):
                return ("true" if ("tuple" in names or "list" in names) else "false", None)
            if v.kind == "cdict":
                return ("true" if "dict" in names else "false", None)
            raise Unsupported("isinstance of python-level value %r" % (v,))
        k = v.ty.kind
        if k == "jrep":
            return ("((_ is JObj) %s)" % v.t if "dict" in names else "false", None)
        if k == "opt":
            inner = v.ty.args[0]
            t, _ = self.isinstance_term(SV(S.the(inner, v.t), inner), names)
            return (AND(NOT(S.is_none(inner, v.t)), t), inner if t == "true" else None)
        if k == "none":
            return ("true" if "NoneType" in names else "false", None)
        if k == "Val":
            tests = []
            narrow = None
            for n in names:
                if n in self.VAL_TESTS:
                    tests.extend("((_ is %s) %s)" % (c, v.t) for c in self.VAL_TESTS[n])
                elif n in self.cx.repo.classes:
                    tests.append(
                        AND("((_ is VRef) %s)" % v.t, self.cls_test("(vref %s)" % v.t, n))
                    )
                elif n in ("dict", "list", "tuple", "set", "frozenset"):
                    tests.append(
                        AND("((_ is VOther) %s)" % v.t, "(other_is_%s (vother %s))" % (n, v.t))
                    )
                    fn = "other_is_" + n
                    if fn not in self.cx.funs_known:
                        self.cx.funs_known.add(fn)
                        self.cx.funs.append("(declare-fun %s (Int) Bool)" % fn)
                else:
                    raise Unsupported("isinstance(Val, %s)" % n)
            if len(names) == 1:
                if names[0] in self.NARROW:
                    narrow = self.NARROW[names[0]]
                elif names[0] in self.cx.repo.classes and names[0] not in T.VALUE_CLASSES:
                    narrow = T.Ref(names[0])
            return (OR(*tests), narrow)
        if k == "ref":
            cls = v.ty.args[0]
            ci = self.cx.repo.classes.get(cls)
            for n in names:
                if ci is not None and ci.is_subclass_of(n):
                    return ("true", None)
            tests = [self.cls_test(v.t, n) for n in names if n in self.cx.repo.classes
                     and self.cx.repo.classes[n].is_subclass_of(cls)]
            narrow = T.Ref(names[0]) if len(names) == 1 and tests else None
            return (OR(*tests), narrow)
        for n in names:
            if k in self.STATIC_KINDS.get(n, ()):
                return ("true", None)
        return ("false", None)

    def cls_test(self, refterm, clsname):
        subs = sorted(c.name for c in self.cx.repo.subclasses(clsname))
        return OR(*["(= (clsof %s) %d)" % (refterm, self.cx.class_ids[s]) for s in subs])

    def cls_exact(self, refterm, clsname):
        return "(= (clsof %s) %d)" % (refterm, self.cx.class_ids[clsname])

    # ---------------------------------------------------------------- schema
    def schema_for(self, cls):
        ci = self.cx.repo.classes.get(cls)
        if ci is None:
            return self.cx.specs.schemas.get(cls)
        for c in ci.mro:
            n = c.name if hasattr(c, "name") else c
            if n in self.cx.specs.schemas:
                return self.cx.specs.schemas[n]
        return None

    def field_decl(self, cls, field):
        """-> (declaring class name, type) or None"""
        ci = self.cx.repo.classes.get(cls)
        names = [c.name if hasattr(c, "name") else c for c in ci.mro] if ci else [cls]
        for n in names:
            sc = self.cx.specs.schemas.get(n)
            if sc is not None:
                ft = sc.field_type(field)
                if ft is not None:
                    return (n, ft)
        return None

    def heap_get(self, st, key, ftype):
        if key not in st.heap:
            raise Unsupported("heap field %r not initialised" % (key,))
        return st.heap[key]

    def field_read(self, obj, field, st):
        d = self.field_decl(obj.ty.args[0], field)
        if d is None:
            return None
        dcls, ft = d
        if ft == T.PYOBJ:
            return st.env.get("$f:%s.%s" % (obj.t, field), PyV("opaque", (dcls, field)))
        key = (dcls, field)
        return SV("(select %s %s)" % (self.peel_heap(self.heap_term(st, key, ft), obj.t), obj.t), ft)

    # ---- read-over-write at the term level (keeps specifications about old objects syntactically stable
    # across allocations): sound because a reference that exists at entry is allocated at entry (python
    # semantics, stated as a hypothesis by verify_contract) and a constructor result is unallocated before.
    def known_distinct(self, a, b):
        cx = self.cx
        if a == b:
            return False
        entry = cx.__dict__.get("entry_refs", ())
        new = cx.__dict__.get("new_refs", ())
        return (a in entry and b in new) or (a in new and b in entry) or (a in new and b in new)

    @staticmethod
    def split_store(t):
        """'(store A n v)' -> (A, n, v) or None"""
        if not t.startswith("(store "):
            return None
        parts, depth, cur = [], 0, []
        for ch in t[7:-1]:
            if ch == " " and depth == 0:
                parts.append("".join(cur)); cur = []
                continue
            if ch == "(":
                depth += 1
            elif ch == ")":
                depth -= 1
            cur.append(ch)
        parts.append("".join(cur))
        return tuple(parts) if len(parts) == 3 else None

    def peel_heap(self, arr, o):
        cx = self.cx
        defs = cx.__dict__.get("heap_defs", {})
        entry = cx.__dict__.get("entry_refs", ())
        for _ in range(200):
            d = defs.get(arr)
            if d is None:
                sp = self.split_store(arr)
                if sp is None:
                    return arr
                d = ("store", sp[0], sp[1])
            if d[0] == "store" and self.known_distinct(o, d[2]):
                arr = d[1]
            elif d[0] == "alloc-havoc" and o in entry:
                arr = d[1]
            else:
                return arr
        return arr

    def fs_term(self, st):
        key = ("$", "fs")
        if key in st.heap:
            return st.heap[key]
        if "FS@0" not in self.cx.funs_known:
            self.cx.funs_known.add("FS@0")
            self.cx.sorts.sort(T.Opt(T.STR))
            self.cx.consts.append(("FS@0", "(Array String Opt_Str)"))
        return "FS@0"

    def heap_term(self, st, key, ft):
        if key not in st.heap:
            # lazily created symbolic initial heap (shared by all states of this context)
            nm = "H_%s_%s" % (key[0], key[1].strip("<>_"))
            full = nm + "@0"
            if full not in self.cx.funs_known:
                self.cx.funs_known.add(full)
                self.cx.consts.append((full, "(Array Int %s)" % self.cx.sorts.sort(ft)))
            return full
        return st.heap[key]

    def field_write(self, obj, field, val, st):
        d = self.field_decl(obj.ty.args[0], field)
        if d is None:
            raise Unsupported("write to undeclared field %s.%s" % (obj.ty.args[0], field))
        dcls, ft = d
        if ft == T.PYOBJ:
            return st.bind("$f:%s.%s" % (obj.t, field), val)
        key = (dcls, field)
        if isinstance(val, PyV):
            v = self.bi.lower(val, ft, st, "for field %s.%s" % (dcls, field))
        else:
            v = self.coerce(val, ft, "for field %s.%s" % (dcls, field))
        arr = self.heap_term(st, key, ft)
        st, vt = self.name_term(st, v.t, self.cx.sorts.sort(ft), "v_" + field.strip("_"))
        return self.set_heap(st, key, "(store %s %s %s)" % (arr, obj.t, vt), ft)

    NAME_THRESHOLD = 120

    def name_term(self, st, term, sort, prefix):
        """introduce a name for a large term (x = term as a definitional hypothesis): keeps queries small"""
        if len(term) <= self.NAME_THRESHOLD:
            return st, term
        nm = self.cx.fresh_sort(prefix, sort)
        return st.assume("(= %s %s)" % (nm, term)), nm

    def set_heap(self, st, key, term, ft):
        st, t = self.name_term(st, term, "(Array Int %s)" % self.cx.sorts.sort(ft), "H_%s_%s" % (key[0], key[1].strip("<>_")))
        if t != term:
            sp = self.split_store(term)
            if sp is not None:
                self.cx.__dict__.setdefault("heap_defs", {})[t] = ("store", sp[0], sp[1])
        return st.with_heap(key, t)

    def dict_self(self, obj, st):
        sc = self.schema_for(obj.ty.args[0])
        kk, vv = sc.dict_of
        mt = T.Map(kk, vv)
        key = (sc.cls, "<dict>")
        return SV("(select %s %s)" % (self.peel_heap(self.heap_term(st, key, mt), obj.t), obj.t), mt)

    def dict_self_write(self, obj, newmap, st):
        sc = self.schema_for(obj.ty.args[0])
        kk, vv = sc.dict_of
        mt = T.Map(kk, vv)
        key = (sc.cls, "<dict>")
        arr = self.heap_term(st, key, mt)
        st, vt = self.name_term(st, newmap.t, self.cx.sorts.sort(mt), "v_dict")
        return self.set_heap(st, key, "(store %s %s %s)" % (arr, obj.t, vt), mt)

    # ---------------------------------------------------------------- maps / sets
    def map_has(self, m, k):
        S = self.cx.sorts
        if m.ty.kind == "qmap":
            vv = m.ty.args[0]
            mk, tab, keyf = T.qm_names(vv)
            S.sort(m.ty)
            cell = "(select (%s %s) %s)" % (tab, m.t, self.qkey(k))
            return self.cell_present(cell, vv)
        kk, vv = m.ty.args
        kt = self.key_term(k, kk)
        return self.cell_present("(select %s %s)" % (m.t, kt), vv)

    def cell_present(self, cell, vv):
        S = self.cx.sorts
        if T.total_map_value(vv):
            if vv.kind == "set":
                return NOT(EQ(cell, S.empty_set(vv.args[0])))
            if vv.kind == "vset":
                return "(> (vs_n %s) 0)" % cell
            return "(> (seq.len %s) 0)" % cell
        return NOT(S.is_none(vv, cell))

    def map_get(self, m, k):
        S = self.cx.sorts
        if m.ty.kind == "qmap":
            vv = m.ty.args[0]
            mk, tab, keyf = T.qm_names(vv)
            S.sort(m.ty)
            cell = "(select (%s %s) %s)" % (tab, m.t, self.qkey(k))
            if T.total_map_value(vv) and isinstance(k, SV) and k.ty.kind == "opt":
                # defaultdict[None]: a key that is no qualified name finds nothing (an empty entry)
                empty = "vs_empty" if vv.kind == "vset" else "(as seq.empty %s)" % S.sort(vv)
                return SV(ITE(S.is_none(k.ty.args[0], k.t), empty, cell), vv)
            return SV(cell if T.total_map_value(vv) else S.the(vv, cell), vv)
        kk, vv = m.ty.args
        kt = self.key_term(k, kk)
        if T.total_map_value(vv):
            return SV("(select %s %s)" % (m.t, kt), vv)
        return SV(S.the(vv, "(select %s %s)" % (m.t, kt)), vv)

    def map_put(self, m, k, v):
        S = self.cx.sorts
        if m.ty.kind == "qmap":
            vv = m.ty.args[0]
            mk, tab, keyf = T.qm_names(vv)
            S.sort(m.ty)
            u = self.qkey(k)
            vt = self.coerce(v, vv, "map value") if isinstance(v, SV) else self.bi.lower(v, vv, None, "map value")
            cellv = vt.t if T.total_map_value(vv) else S.some(vv, vt.t)
            had = self.cell_present("(select (%s %s) %s)" % (tab, m.t, u), vv)
            if k.ty != T.QN:
                raise Unsupported("dict keyed by QualifiedName written with a %r key" % (k.ty,))
            # python keeps the key object that was inserted first
            keys = ITE(had, "(%s %s)" % (keyf, m.t), "(store (%s %s) %s %s)" % (keyf, m.t, u, k.t))
            return SV("(%s (store (%s %s) %s %s) %s)" % (mk, tab, m.t, u, cellv, keys), m.ty)
        kk, vv = m.ty.args
        kt = self.key_term(k, kk)
        vt = self.coerce(v, vv, "map value") if isinstance(v, SV) else self.bi.lower(v, vv, None, "map value")
        if T.total_map_value(vv):
            return SV("(store %s %s %s)" % (m.t, kt, vt.t), m.ty)
        return SV("(store %s %s %s)" % (m.t, kt, S.some(vv, vt.t)), m.ty)

    def qkey(self, k):
        """key of a QualifiedName-keyed dict: the URI.  An Identifier that is not a QualifiedName hashes
        differently (hash((uri, class)) vs hash(uri)), so it never finds a QualifiedName key: refused."""
        if isinstance(k, PyV):
            raise Unsupported("python-level key")
        if k.ty == T.QN:
            return self.qn_uri_term(k.t)
        if k.ty.kind == "opt" and k.ty.args[0] == T.QN:
            return "(qn_uri %s)" % self.cx.sorts.the(T.QN, k.t)
        raise Unsupported("QualifiedName-keyed dict indexed with %r" % (k.ty,))

    def key_term(self, k, kk):
        """canonical key (DESIGN 2.3 Keys): QN/Ident keys are indexed by URI when the
        declared key type is Ident; Ns keys structurally; Val keys by ck."""
        if isinstance(k, PyV):
            raise Unsupported("python-level key")
        if kk == T.IDENT and k.ty in (T.QN, T.IDENT):
            return self.uri_of(k)
        return self.coerce(k, kk, "map key").t

    # python sets of record objects -----------------------------------------
    def need_rkey(self, st):
        cx = self.cx
        S = cx.sorts
        hi = self.heap_term(st, ("ProvRecord", "_identifier"), T.Opt(T.QN))
        ha = self.heap_term(st, ("ProvRecord", "_attributes"), T.QMap(T.VSET))
        if "rkeyF" not in cx.funs_known:
            cx.funs_known.add("rkeyF")
            probe = SV("r", T.Ref("ProvRecord"))
            ty = self.coerce(self.dyn_class_attr(probe, "ProvRecord", "_prov_type", st), T.Opt(T.QN))
            qs = S.sort(T.QMap(T.VSET))
            self.bi.spec_builtin("attr_set", [SV("m", T.QMap(T.VSET))], {}, st, None)
            cx.funs.append(
                "(define-fun rkeyF ((r Int) (hi (Array Int Opt_QN)) (ha (Array Int %s))) RKey (mkRKey %s "
                "(ite ((_ is none_QN) (select hi r)) none_Str (some_Str (qn_uri (the_QN (select hi r))))) "
                "(attrset (select ha r))))" % (qs, ty.t))
            cx.funs.append("(declare-fun reckeysF ((Seq Int) (Array Int Opt_QN) (Array Int %s)) (Array RKey Bool))" % qs)
            cx.funs.append(
                "(assert (forall ((l (Seq Int)) (hi (Array Int Opt_QN)) (ha (Array Int %s)) (k RKey)) "
                "(= (select (reckeysF l hi ha) k) (exists ((i Int)) (and (<= 0 i) (< i (seq.len l)) (= (rkeyF (seq.nth l i) hi ha) k))))))" % qs)
            cx.funs.append(
                "(assert (forall ((l (Seq Int)) (hi (Array Int Opt_QN)) (ha (Array Int %s)) (i Int)) "
                "(=> (and (<= 0 i) (< i (seq.len l))) (select (reckeysF l hi ha) (rkeyF (seq.nth l i) hi ha)))))" % qs)
        return hi, ha

    def rkey_term(self, ref_t, st):
        """canonical key of the record object `ref_t` in the heap of st: (type, identifier URI, attribute pairs)"""
        hi, ha = self.need_rkey(st)
        return "(rkeyF %s %s %s)" % (ref_t, hi, ha)

    def rec_keys(self, seq, st):
        """{rkey(r) | r in seq} in the heap of st"""
        hi, ha = self.need_rkey(st)
        return "(reckeysF %s %s %s)" % (seq.t, hi, ha)

    def need_filters(self):
        """order-preserving filters of a record list, defined by their recursion equations (A1, A2) and the
        frame lemma (A3: the result depends on the identifier field of the listed records only)"""
        cx = self.cx
        if "filtid" in cx.funs_known:
            return
        cx.funs_known.add("filtid")
        self.need_subclass_fn()
        idm = "(and ((_ is some_QN) (select h r)) (= (qn_uri (the_QN (select h r))) u))"
        cx.funs.append("(declare-fun filtid ((Seq Int) (Array Int Opt_QN) String) (Seq Int))")
        cx.funs.append("(assert (forall ((h (Array Int Opt_QN)) (u String)) (= (filtid (as seq.empty (Seq Int)) h u) (as seq.empty (Seq Int)))))")
        cx.funs.append("(assert (forall ((l (Seq Int)) (r Int) (h (Array Int Opt_QN)) (u String)) (= (filtid (seq.++ l (seq.unit r)) h u) "
                       "(ite %s (seq.++ (filtid l h u) (seq.unit r)) (filtid l h u)))))" % idm)
        cx.funs.append("(assert (forall ((l (Seq Int)) (h1 (Array Int Opt_QN)) (h2 (Array Int Opt_QN)) (u String)) "
                       "(=> (forall ((i Int)) (=> (and (<= 0 i) (< i (seq.len l))) (= (select h1 (seq.nth l i)) (select h2 (seq.nth l i))))) "
                       "(= (filtid l h1 u) (filtid l h2 u)))))")
        cx.funs.append("(declare-fun filtcls ((Seq Int) Int) (Seq Int))")
        cx.funs.append("(assert (forall ((c Int)) (= (filtcls (as seq.empty (Seq Int)) c) (as seq.empty (Seq Int)))))")
        cx.funs.append("(assert (forall ((l (Seq Int)) (r Int) (c Int)) (= (filtcls (seq.++ l (seq.unit r)) c) "
                       "(ite (subclass_id (clsof r) c) (seq.++ (filtcls l c) (seq.unit r)) (filtcls l c)))))")
        cx.notes.append("trusted: frame lemma A3 for filtid (induction on the list, not mechanised)")

    def oset_of_seq(self, seq, st):
        cx = self.cx
        has = self.rec_keys(seq, st)
        rep = cx.fresh_sort("osrep", "(Array RKey Int)")
        n = cx.fresh("osn", T.INT)
        cx.axioms.append("(forall ((k RKey)) (=> (select %s k) (and (seq.contains %s (seq.unit (select %s k))) (= %s k))))" % (
            has, seq.t, rep, self.rkey_term("(select %s k)" % rep, st)))
        cx.axioms.append("(and (>= %s 0) (= (= %s 0) (= %s ((as const (Array RKey Bool)) false))))" % (n.t, n.t, has))
        osets = cx.__dict__.setdefault("_osets", [])
        for (h2, n2) in osets:
            # finite sets: equal sets have equal sizes; a subset of equal size is the whole set (pigeonhole)
            cx.axioms.append("(=> (= %s %s) (= %s %s))" % (has, h2, n.t, n2))
            for (a, na, b, nb) in ((has, n.t, h2, n2), (h2, n2, has, n.t)):
                cx.axioms.append("(=> (and (= %s %s) (forall ((k RKey)) (=> (select %s k) (select %s k)))) (= %s %s))" % (
                    na, nb, a, b, a, b))
        osets.append((has, n.t))
        cx.notes.append("trusted: pigeonhole instance for finite sets built by set(list)")
        return SV("(mkOSet %s %s %s)" % (has, rep, n.t), T.OSET)

    # python sets of values ------------------------------------------------
    def vset_in(self, s, v):
        return "(vs_in %s %s)" % (s.t, self.box(v).t)

    def vset_add(self, s, v):
        return SV("(vs_add %s %s)" % (s.t, self.box(v).t), T.VSET)
