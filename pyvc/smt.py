"""SMT-LIB 2 term helpers and the fixed prelude."""


def slit(s):
    """Python str -> SMT-LIB 2.6 string literal."""
    out = []
    for ch in s:
        o = ord(ch)
        if ch == '"':
            out.append('""')
        elif ch == "\\":
            out.append("\\u{5c}")
        elif 32 <= o < 127:
            out.append(ch)
        else:
            out.append("\\u{%x}" % o)
    return '"' + "".join(out) + '"'


def ilit(i):
    return str(i) if i >= 0 else "(- %d)" % (-i)


def app(f, *args):
    return "(%s %s)" % (f, " ".join(args))


def AND(*xs):
    xs = [x for x in xs if x != "true"]
    if any(x == "false" for x in xs):
        return "false"
    if not xs:
        return "true"
    if len(xs) == 1:
        return xs[0]
    return "(and %s)" % " ".join(xs)


def OR(*xs):
    xs = [x for x in xs if x != "false"]
    if any(x == "true" for x in xs):
        return "true"
    if not xs:
        return "false"
    if len(xs) == 1:
        return xs[0]
    return "(or %s)" % " ".join(xs)


def NOT(x):
    if x == "true":
        return "false"
    if x == "false":
        return "true"
    if x.startswith("(not ") and x.endswith(")"):
        inner = x[5:-1]
        if _single(inner):
            return inner
    return "(not %s)" % x


def _single(s):
    """is s exactly one s-expression (used by the double-negation peephole)"""
    s = s.strip()
    if not s:
        return False
    if s[0] != "(":
        return " " not in s and '"' not in s
    d = 0
    instr = False
    for i, ch in enumerate(s):
        if ch == '"':
            instr = not instr
        if instr:
            continue
        if ch == "(":
            d += 1
        elif ch == ")":
            d -= 1
            if d == 0 and i != len(s) - 1:
                return False
    return d == 0


def IMPLIES(a, b):
    if a == "true":
        return b
    if a == "false" or b == "true":
        return "true"
    return "(=> %s %s)" % (a, b)


def ITE(c, a, b):
    if c == "true":
        return a
    if c == "false":
        return b
    if a == b:
        return a
    return "(ite %s %s %s)" % (c, a, b)


def EQ(a, b):
    if a == b:
        return "true"
    return "(= %s %s)" % (a, b)


PRELUDE = r"""
(set-logic ALL)
(declare-sort Flt 0)
(declare-sort DT 0)
(declare-sort Bytes 0)
(declare-datatypes ((Ns 0)) (((mkNs (ns_prefix String) (ns_uri String)))))
(declare-datatypes ((QN 0)) (((mkQN (qn_ns Ns) (qn_local String)))))
(declare-datatypes ((Opt_QN 0)) (((none_QN) (some_QN (the_QN QN)))))
(declare-datatypes ((Opt_Str 0)) (((none_Str) (some_Str (the_Str String)))))
(declare-datatypes ((Lit 0)) (((mkLit (lit_value String) (lit_dt Opt_QN) (lit_lang Opt_Str)))))
(declare-datatypes ((Val 0)) (((VNone) (VBool (vbool Bool)) (VInt (vint Int)) (VFloat (vfloat Flt))
   (VStr (vstr String)) (VDT (vdt DT)) (VIdent (vident String)) (VQN (vqn QN)) (VLit (vlit Lit))
   (VRef (vref Int)) (VOther (vother Int)))))
(define-fun qn_uri ((q QN)) String (str.++ (ns_uri (qn_ns q)) (qn_local q)))
(define-fun qn_str ((q QN)) String
   (ite (= (ns_prefix (qn_ns q)) "") (qn_local q) (str.++ (ns_prefix (qn_ns q)) ":" (qn_local q))))
(declare-fun clsof (Int) Int)
(declare-fun hash_str (String) Int)
(declare-fun flt_is_zero (Flt) Bool)
(declare-fun flt_of_int (Int) Flt)
(declare-fun flt_of_bool (Bool) Flt)
(declare-fun flt_eq (Flt Flt) Bool)
(declare-fun dt_eq (DT DT) Bool)
(declare-fun dt_iso (DT) String)
(declare-fun dt_str (DT) String)
(declare-fun flt_repr (Flt) String)
(define-fun int_of_bool ((b Bool)) Int (ite b 1 0))
; canonical key of a value: collapses exactly what Python's ==/hash identify among attribute values
; (True == 1; QualifiedName == Identifier with the same URI; Literal datatypes compare by URI).
; Floats and datetimes are abstract sorts whose equality *is* Python's == (A3, A4); the cross-kind
; collision 1 == 1.0 is excluded by the properties themselves.
(define-fun ck ((v Val)) Val
  (ite ((_ is VBool) v) (VInt (int_of_bool (vbool v)))
  (ite ((_ is VQN) v) (VIdent (qn_uri (vqn v)))
  (ite ((_ is VLit) v) (VLit (mkLit (lit_value (vlit v))
        (ite ((_ is none_QN) (lit_dt (vlit v))) none_QN (some_QN (mkQN (mkNs "" (qn_uri (the_QN (lit_dt (vlit v))))) "")))
        (lit_lang (vlit v))))
   v))))
(define-fun py_eq ((a Val) (b Val)) Bool (= (ck a) (ck b)))
; python set of attribute values: presence by canonical key, first-inserted representative, size
(declare-datatypes ((VSet 0)) (((mkVSet (vs_has (Array Val Bool)) (vs_rep (Array Val Val)) (vs_n Int)))))
(define-fun vs_empty () VSet (mkVSet ((as const (Array Val Bool)) false) ((as const (Array Val Val)) VNone) 0))
(define-fun vs_in ((s VSet) (v Val)) Bool (select (vs_has s) (ck v)))
(define-fun vs_add ((s VSet) (v Val)) VSet
  (ite (select (vs_has s) (ck v)) s
       (mkVSet (store (vs_has s) (ck v) true) (store (vs_rep s) (ck v) v) (+ (vs_n s) 1))))
(define-fun vs_single ((v Val)) VSet (vs_add vs_empty v))
(declare-fun vs_firstkey (VSet) Val)
(define-fun vs_first ((s VSet)) Val (ite (= (vs_n s) 0) VNone (select (vs_rep s) (vs_firstkey s))))
; the first element in iteration order is a member (vs_firstkey is the choice function of set iteration)
(assert (forall ((s VSet)) (! (=> (not (= (vs_has s) ((as const (Array Val Bool)) false))) (select (vs_has s) (vs_firstkey s))) :pattern ((vs_firstkey s)))))
; well-formedness of a set value (holds for vs_empty and is preserved by vs_add)
(define-fun vs_wf ((s VSet)) Bool (and (>= (vs_n s) 0)
   (= (= (vs_n s) 0) (= (vs_has s) ((as const (Array Val Bool)) false)))))
; canonical key of a record (what ProvRecord.__eq__/__hash__ look at): type, identifier URI, attribute pairs
(declare-datatypes ((Tup_Str_Val 0)) (((mk_Tup_Str_Val (Tup_Str_Val_0 String) (Tup_Str_Val_1 Val)))))
(declare-datatypes ((RKey 0)) (((mkRKey (rk_type Opt_QN) (rk_id Opt_Str) (rk_attrs (Array Tup_Str_Val Bool))))))
; python set of record objects (membership by __hash__/__eq__, i.e. by RKey), representative object, size
(declare-datatypes ((OSet 0)) (((mkOSet (os_has (Array RKey Bool)) (os_rep (Array RKey Int)) (os_n Int)))))
"""

PRELUDE_SORTS = {"Opt_QN", "Opt_Str", "Tup_Str_Val"}
