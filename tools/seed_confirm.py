#!/usr/bin/env python3
"""tools/seed_confirm.py <patch.diff> <demo.py>: confirm a seeded change in a scratch worktree of /repo HEAD:
(1) the patch applies, (2) the baseline test set still passes with it, (3) the demo fails with it and
passes without it.  Prints a JSON summary; removes the worktree."""
import json, os, shutil, subprocess, sys, tempfile
patch, demo = os.path.abspath(sys.argv[1]), os.path.abspath(sys.argv[2])
d = tempfile.mkdtemp(prefix="seedc_", dir="/tmp"); wt = os.path.join(d, "wt")
out = {"patch": patch, "demo": demo}
try:
    subprocess.run(["git", "-C", "/repo", "worktree", "add", "-q", "--detach", wt, "HEAD"], check=True)
    env = dict(os.environ, PYTHONPATH=os.path.join(wt, "src"))
    r0 = subprocess.run(["/venv/bin/python", demo], env=env, capture_output=True, text=True, cwd=d)
    out["demo_without_change_exit"] = r0.returncode
    r = subprocess.run(["git", "-C", wt, "apply", patch], capture_output=True, text=True)
    out["applies"] = r.returncode == 0
    if r.returncode == 0:
        r1 = subprocess.run(["/venv/bin/python", demo], env=env, capture_output=True, text=True, cwd=d)
        out["demo_with_change_exit"] = r1.returncode
        out["demo_with_change_tail"] = (r1.stdout + r1.stderr)[-400:]
        b = subprocess.run([sys.executable, "/verif/tools/baseline_check.py", wt], capture_output=True, text=True)
        out["baseline_suite"] = b.stdout.strip().splitlines()[0] if b.stdout else b.stderr[-300:]
        out["baseline_ok"] = b.returncode == 0
    else:
        out["apply_error"] = r.stderr[-300:]
finally:
    subprocess.run(["git", "-C", "/repo", "worktree", "remove", "--force", wt], capture_output=True)
    shutil.rmtree(d, ignore_errors=True)
print(json.dumps(out, indent=1))
