#!/usr/bin/env python3
"""tools/seed_save.py <id> <property> <patch> <demo> <needs> <how-caught> : store a confirmed seeded change"""
import json, os, shutil, subprocess, sys
sid, prop, patch, demo, needs, caught = sys.argv[1:7]
d = os.path.join("/verif/seeded", sid); os.makedirs(d, exist_ok=True)
shutil.copy(patch, os.path.join(d, "patch.diff")); shutil.copy(demo, os.path.join(d, "demo.py"))
conf = json.loads(subprocess.run([sys.executable, "/verif/tools/seed_confirm.py", patch, demo], capture_output=True, text=True).stdout)
head = subprocess.run(["git", "-C", "/repo", "rev-parse", "--short", "HEAD"], capture_output=True, text=True).stdout.strip()
meta = {"id": sid, "property": prop, "needs_to_manifest": needs, "repo_head_when_confirmed": head,
        "origin": "independent sub-agent given only the property text and a scratch worktree",
        "confirmed": {"ran": ["tools/seed_confirm.py patch.diff demo.py  (scratch worktree of /repo HEAD: git apply; tools/baseline_check.py; demo with and without)"],
                      "baseline_suite": conf.get("baseline_suite"), "baseline_ok": conf.get("baseline_ok"),
                      "demo_without_change_exit": conf.get("demo_without_change_exit"), "demo_with_change_exit": conf.get("demo_with_change_exit")},
        "check_result": caught}
json.dump(meta, open(os.path.join(d, "meta.json"), "w"), indent=1)
print(json.dumps(meta["confirmed"]))
