#!/usr/bin/env python3
"""tools/equivalent_run.py: apply each semantics-preserving change of selftest/equivalent/*.diff to a scratch worktree
and run the checks that cover the edited function; a VIOLATION (exit 1) on any of them is a false alarm of the
machinery.  Exit 2/3 (undecided / contract out of date) are not alarms.  Results -> selftest/equivalent/RESULTS.json"""
import glob, json, os, subprocess, sys
COVER = {"E1": ["C18", "C09"], "E2": ["C09", "C12"], "E3": ["C09"], "E4": ["C12", "C08", "C13"], "E5": ["C05", "C08"],
         "E6": ["C03"], "E7": ["C03"], "E8": ["C18"], "E9": ["C04"], "E10": ["C06"], "E11": ["C01", "C10"], "E12": ["C01", "C11"],
         "E13": ["C09"], "E14": ["C04", "C13"], "E15": ["C17"], "E16": ["C14", "C13"], "E17": ["C06", "C13"], "E18": ["C16", "C17"]}
out = {}
for f in sorted(glob.glob("/verif/selftest/equivalent/*.diff")):
    name = os.path.basename(f)[:-5]
    props = COVER[name.split("_")[0]]
    if len(sys.argv) > 1 and name.split("_")[0] not in sys.argv[1:]:
        continue
    r = subprocess.run([sys.executable, "/verif/tools/mutant_run.py", f] + props, capture_output=True, text=True, cwd="/verif")
    res = {}
    cur = None
    for l in r.stdout.splitlines():
        if l.startswith("== "):
            cur = l.split()[1]
            res[cur] = {"exit": int(l.split("exit=")[1]), "lines": []}
        elif cur and l.startswith(("VIOLATION", "ENGINE-ERROR", "UNDECIDED")):
            res[cur]["lines"].append(l[:240])
    out[name] = res
    print(name, {k: v["exit"] for k, v in res.items()}, "FALSE ALARM" if any(v["exit"] == 1 for v in res.values()) else "ok", flush=True)
p = "/verif/selftest/equivalent/RESULTS.json"
old = json.load(open(p)) if os.path.exists(p) else {}
old.update(out)
json.dump(old, open(p, "w"), indent=1)
