#!/usr/bin/env python3
"""tools/mutant_run.py <patch.diff> <Cxx> [<Cyy> ...]: apply a patch to a scratch worktree of /repo (outside
/repo and /verif), run the named checks against it (PROV_REPO), print their verdicts, remove the worktree."""
import os, subprocess, sys, tempfile, shutil
patch = os.path.abspath(sys.argv[1]); props = sys.argv[2:]
d = tempfile.mkdtemp(prefix="mut_", dir="/tmp")
wt = os.path.join(d, "wt")
try:
    subprocess.run(["git", "-C", "/repo", "worktree", "add", "-q", "--detach", wt, "HEAD"], check=True)
    r = subprocess.run(["git", "-C", wt, "apply", patch], capture_output=True, text=True)
    if r.returncode:
        print("PATCH DOES NOT APPLY:", r.stderr); sys.exit(9)
    env = dict(os.environ, PROV_REPO=wt)
    for p in props:
        r = subprocess.run(["./check", p, "--tier", "quick"], cwd="/verif", env=env, capture_output=True, text=True)
        lines = [l for l in r.stdout.splitlines() if l.startswith(("VIOLATION", "UNDECIDED", "ENGINE", "KNOWN", "C"))]
        print("== %s exit=%d" % (p, r.returncode)); print("\n".join(lines[:12]))
        if r.returncode not in (0, 1): print(r.stdout[-1500:], r.stderr[-1500:])
finally:
    subprocess.run(["git", "-C", "/repo", "worktree", "remove", "--force", wt])
    shutil.rmtree(d, ignore_errors=True)
