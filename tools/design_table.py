#!/usr/bin/env python3
"""prints the 'as built' tables of DESIGN.md section 11 from MANIFEST.json, evidence/*.json, seeded/*/meta.json, known_findings.json"""
import glob, json, os
V = "/verif"
man = json.load(open(V + "/MANIFEST.json"))
print("| property | level in evidence | units under contract | obligations (solver / reduced to true) | bounded battery (quick run) | scans | wall (quick) |")
print("|---|---|---|---|---|---|---|")
for c in man["checks"]:
    p = c["property_id"]
    e = json.load(open(V + "/evidence/%s.json" % p))
    cv = e["coverage"]
    nb = cv.get("native_battery") or {}
    scans = [x["name"].replace("scan:", "") for x in cv.get("syntactic_scans", [])]
    print("| %s | %s | %d functions, %d lemmas | %d (%d / %d) | %s cases | %s | %.0f s |" % (
        p, e["level"], len(cv.get("functions_under_contract", [])), len(cv.get("lemmas", [])), cv.get("obligations", 0), cv.get("discharged_by_solver", 0),
        cv.get("discharged_by_term_simplifier", 0), nb.get("evaluations", "-"), (", ".join(sorted({s.split(":")[0] for s in scans})) or "-"), e["wall_s"]))
print()
print("| seeded change | property | needs | result of the check |")
print("|---|---|---|---|")
for m in sorted(glob.glob(V + "/seeded/*/meta.json")):
    j = json.load(open(m))
    print("| %s | %s | %s | %s |" % (j["id"], j["property"], j["needs_to_manifest"][:160].replace("|", "/"), j["check_result"][:330].replace("|", "/")))
