#!/usr/bin/env python3
"""tools/seed_run_all.py [ids...]: run every saved seeded change (seeded/<id>/patch.diff) against the check of its
property on a scratch worktree (tools/mutant_run.py) and record the verdict in seeded/<id>/meta.json under
"final_run" (exit code and the VIOLATION / ENGINE-ERROR / UNDECIDED lines)."""
import glob, json, os, subprocess, sys, time
ids = sys.argv[1:]
for m in sorted(glob.glob("/verif/seeded/*/meta.json")):
    j = json.load(open(m))
    if ids and j["id"] not in ids:
        continue
    d = os.path.dirname(m)
    t0 = time.time()
    r = subprocess.run([sys.executable, "/verif/tools/mutant_run.py", os.path.join(d, "patch.diff"), j["property"]], capture_output=True, text=True, cwd="/verif")
    lines = [l for l in r.stdout.splitlines() if l.startswith(("== ", "VIOLATION", "ENGINE-ERROR", "UNDECIDED", "PATCH"))]
    exit_line = [l for l in lines if l.startswith("== ")]
    code = int(exit_line[0].split("exit=")[1]) if exit_line else None
    head = subprocess.run(["git", "-C", "/repo", "rev-parse", "--short", "HEAD"], capture_output=True, text=True).stdout.strip()
    j["final_run"] = {"repo_head": head, "check": "./check %s --tier quick (scratch worktree)" % j["property"], "exit": code,
                      "lines": [l[:300] for l in lines if not l.startswith("== ")][:6], "wall_s": round(time.time() - t0)}
    json.dump(j, open(m, "w"), indent=1)
    print(j["id"], "exit=%s" % code, "DETECTED" if code == 1 else "NOT DETECTED", flush=True)
