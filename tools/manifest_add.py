#!/usr/bin/env python3
"""tools/manifest_add.py <Cxx> <design_ref> <level_text_file> <level_note_file> [category]: add/replace a check entry in
MANIFEST.json (and drop the property from not_applicable)."""
import json, sys
pid, ref, tf, nf = sys.argv[1:5]
cat = sys.argv[5] if len(sys.argv) > 5 else "proof"
p = "/verif/MANIFEST.json"
d = json.load(open(p))
entry = {
    "property_id": pid, "quick_cmd": "./check %s --tier quick" % pid, "thorough_cmd": "./check %s --tier thorough" % pid,
    "evidence_file": "evidence/%s.json" % pid, "replay_cmd_template": "./check %s --replay {path}" % pid, "engine": "pyvc",
    "level_claimed": {"category": cat, "text": open(tf).read().strip(), "design_ref": ref},
    "level_note": open(nf).read().strip(),
    "technique": "contract-based deductive verification: sidecar contracts on the real functions, AST->SMT VCs (pyvc) discharged by cvc5+z3; ownership/frame scans; bounded native battery as replay step and stand-in where stated",
}
d["checks"] = [c for c in d["checks"] if c["property_id"] != pid] + [entry]
d["checks"].sort(key=lambda c: c["property_id"])
d["not_applicable"] = [n for n in d.get("not_applicable", []) if n["property_id"] != pid]
for e in d.get("engines", []):
    if e["name"] == "pyvc" and pid not in e["serves_properties"]:
        e["serves_properties"] = sorted(e["serves_properties"] + [pid])
json.dump(d, open(p, "w"), indent=1)
print("checks:", [c["property_id"] for c in d["checks"]], "n/a:", [n["property_id"] for n in d["not_applicable"]])
