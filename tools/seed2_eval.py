#!/usr/bin/env python3
"""tools/seed2_eval.py <Cxx> [...]: second-round seeds under /tmp/seed2/<Cxx>/variant_{A,B}.diff: confirm and run the check"""
import json, os, subprocess, sys
for prop in sys.argv[1:]:
    for v in "AB":
        patch = os.environ.get("SEED_ROOT", "/tmp/seed2") + "/%s/variant_%s.diff" % (prop, v)
        demo = os.environ.get("SEED_ROOT", "/tmp/seed2") + "/%s/demo_%s.py" % (prop, v)
        if not os.path.exists(patch):
            print(prop, v, "no patch"); continue
        conf = json.loads(subprocess.run([sys.executable, "/verif/tools/seed_confirm.py", patch, demo], capture_output=True, text=True).stdout or "{}")
        r = subprocess.run([sys.executable, "/verif/tools/mutant_run.py", patch, prop], capture_output=True, text=True, cwd="/verif")
        lines = [l[:230] for l in r.stdout.splitlines() if l.startswith(("== ", "VIOLATION", "ENGINE-ERROR", "UNDECIDED", "PATCH"))]
        print(prop, v, "applies=%s baseline_ok=%s demo(without,with)=(%s,%s)" % (conf.get("applies"), conf.get("baseline_ok"), conf.get("demo_without_change_exit"), conf.get("demo_with_change_exit")), flush=True)
        for l in lines[:5]:
            print("    ", l, flush=True)
