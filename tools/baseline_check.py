#!/usr/bin/env python3
"""Run the repository's pinned test command in <repo dir> and compare the passing set with
/root/.vp/BASELINE.json (stable_pass).  Exit 0 iff every baseline test still passes."""
import json, os, subprocess, sys, tempfile, xml.etree.ElementTree as ET

def main():
    d = sys.argv[1] if len(sys.argv) > 1 else "/repo"
    base = json.load(open("/root/.vp/BASELINE.json"))
    want = set(base["stable_pass"])
    fd, xml = tempfile.mkstemp(suffix=".xml", dir="/var/tmp"); os.close(fd)
    env = dict(os.environ); env.pop("PROV_VERIF", None)
    p = subprocess.run(["/venv/bin/python", "-m", "pytest", "-q", "-p", "no:cacheprovider", "--timeout=900",
                        "--continue-on-collection-errors", "-n", "8", "--junitxml=" + xml] if False else
                       ["/venv/bin/python", "-m", "pytest", "-q", "-p", "no:cacheprovider", "--timeout=900",
                        "--continue-on-collection-errors", "--junitxml=" + xml],
                       cwd=d, env=env, capture_output=True, text=True)
    got = set()
    for tc in ET.parse(xml).getroot().iter("testcase"):
        if not any(ch.tag in ("failure", "error", "skipped") for ch in tc):
            got.add("%s::%s" % (tc.get("classname"), tc.get("name")))
    os.remove(xml)
    missing = sorted(want - got)
    print("baseline %d, passing now %d, baseline tests no longer passing: %d" % (len(want), len(got), len(missing)))
    for m in missing[:40]:
        print("  LOST", m)
    return 1 if missing else 0

sys.exit(main())
