import sys
sys.setrecursionlimit(40000)
from pyvc.load import Repo
from pyvc.run import load_specs, run_contract
repo=Repo(); specs=load_specs()
ur=run_contract(repo,specs,specs.contracts[sys.argv[1]])
print(ur.error)
for ob in ur.obligations:
    if sys.argv[2] in ob.name:
        open(sys.argv[3],'w').write(ur.cx.query(ob, relevant=True)); print(ob.name); break
